#!/usr/bin/env python3
"""Writes /repo/compiler/verif_contracts_depth.go: the operand-stack accounting of the statement
and expression dispatch of the bytecode compiler (C29: "every control-flow path keeps the operand
stack depth ... consistent").

The compiler's protocol: compileNode(node, valueIsIgnored) returns a result code that tells its
caller whether the code it emitted leaves one value on the operand stack (expressionCompiled) or
none (expressionIgnored, expressionCompiledWithoutResult); the caller emits a POP or a NIL
accordingly.  A result code that disagrees with the emitted code unbalances the stack of every
program that contains the construct.

Ghost state (per compiler c):  ghost(depth, c)  the net number of values the code emitted so far
leaves on the operand stack along its fall-through path;  ghost(dead, c) == 1  once a construct
that never falls through (return, throw, break, a recorded compile failure) has been emitted,
after which the accounting of the fall-through path says nothing.

VERIFIED here (props C29): the dispatch and plumbing functions listed in PLUMBING, against
ASSUMED contracts (trusted, listed in the evidence) of the node compilers they call: "a node
compiler without a result code leaves exactly one value", "a node compiler with a result code
obeys the protocol".  The ghost depth moves only in emit (ghostdef clauses in
verif_contracts.go: stack effect of NIL, POP and the conditional jumps, as the VM's run loop
implements them)."""
import re

SRC = open('/repo/compiler/bytecode_compiler.go').read()
OTHER = open('/repo/compiler/verif_contracts.go').read() + open('/repo/compiler/verif_contracts_abort.go').read()
have = set(re.findall(r'^func \(\*BytecodeCompiler\)\.(\w+)', OTHER, re.M))

PLUMBING = ['compileNode', 'compileNodeWithoutResult', 'compileNodeWithResult', 'mustCompileNode',
            'compileStatements', 'compileStatementsWithoutResult', 'compileStatementsWithResult',
            'compileStatementsOk', 'compileUnhygienicExpressionNode', 'compileTypeofExpressionNode',
            'compileTryExpressionNode', 'compileLabeledExpressionNode', 'compileLogicalExpressionNode',
            'nilCoalescing', 'logicalOr', 'logicalAnd',
            # node compilers simple enough to be verified instead of assumed
            'compileAsExpressionNode', 'compileMustExpressionNode', 'compileThrowExpressionNode',
            'compileAwaitExpressionNode']

def body(name):
    m = re.search(r'^func \(c \*BytecodeCompiler\) %s\((.*?)\)\s*([^{\n]*)\{\n(.*?)^\}\n' % name, SRC, re.M | re.S)
    if not m:
        raise SystemExit("no function " + name)
    return m.group(1), m.group(2).strip(), m.group(3)

RANGE = "  ensures range: ret == expressionCompiled || ret == expressionIgnored || ret == expressionCompiledWithoutResult\n"
PROTO = RANGE + """  ensures pushed: ret == expressionCompiled ==> dp(c) == old(dp(c)) + 1 || dd(c)
  ensures kept: ret != expressionCompiled ==> dp(c) == old(dp(c)) || dd(c)
  ensures value: !valueIsIgnored && ret == expressionCompiledWithoutResult ==> dd(c)
  ensures sticky: old(dd(c)) ==> dd(c)"""
PROTO_NOFLAG = RANGE + """  ensures pushed: ret == expressionCompiled ==> dp(c) == old(dp(c)) + 1 || dd(c)
  ensures kept: ret != expressionCompiled ==> dp(c) == old(dp(c)) || dd(c)
  ensures sticky: old(dd(c)) ==> dd(c)"""
ONE = """  ensures one: dp(c) == old(dp(c)) + 1 || dd(c)
  ensures sticky: old(dd(c)) ==> dd(c)"""
ZERO = """  ensures none: dp(c) == old(dp(c)) || dd(c)
  ensures sticky: old(dd(c)) ==> dd(c)"""
# (lkeep: whether a loop keeps the value of its last iteration is fixed when its jump set is created;
# nothing assigns the field afterwards)
# jump records (ghost(jdepth, jkey(c, offset)): the depth on the path that takes the jump whose operand
# is at `offset`, written by emitJump) of this compiler below the current end of the code are kept:
# code is only ever appended, and a new jump's operand lies beyond the old end
JKEEP = """
  ensures mono: clen(c) >= old(clen(c))
  ensures jkeep: forall k mathint :: jkey(c, 0) <= k && k < jkey(c, old(clen(c))) ==> ghost(jdepth, k) == old(ghost(jdepth, k))
  ensures lkeep: forall s *bytecodeLoopJumpSet :: old(allocated(s)) ==> s.returnsValueFromLastIteration == old(s.returnsValueFromLastIteration)"""
JINV = "(clen(c) >= old(clen(c))) && (forall k mathint :: jkey(c, 0) <= k && k < jkey(c, old(clen(c))) ==> ghost(jdepth, k) == old(ghost(jdepth, k))) && (forall s *bytecodeLoopJumpSet :: old(allocated(s)) ==> s.returnsValueFromLastIteration == old(s.returnsValueFromLastIteration))"
HEAD = "  props C29\n  nosafety\n  noterm\n  requires c != nil"

hand = {
 'compileNode': HEAD + "\n" + PROTO + """
  // a node whose value is needed but that compiles to nothing at all (a declaration in value
  // position) voids the accounting like a compile failure does (ghost code at the exit)
  ensures ghostdef unused: !valueIsIgnored && ret == expressionIgnored ==> ghost(dead, c) == 1""",
 'compileNodeWithoutResult': HEAD + "\n" + ZERO,
 'compileNodeWithResult': HEAD + "\n" + ONE,
 'mustCompileNode': HEAD + """
  ensures ignored: valueIsIgnored ==> dp(c) == old(dp(c)) || dd(c)
  ensures used: !valueIsIgnored ==> dp(c) == old(dp(c)) + 1 || dd(c)
  ensures sticky: old(dd(c)) ==> dd(c)""",
 'compileStatements': HEAD + "\n" + PROTO_NOFLAG + """
  ensures code: valueIsIgnored ==> ret == expressionCompiledWithoutResult
  ensures code2: !valueIsIgnored ==> ret == expressionCompiled""",
 'compileStatementsWithoutResult': HEAD + "\n" + ZERO + """
  loop 1
    invariant (dp(c) == old(dp(c)) || dd(c)) && (old(dd(c)) ==> dd(c))""",
 'compileStatementsWithResult': HEAD + "\n" + ONE,
 'compileStatementsOk': HEAD + """
  ensures one: ret ==> dp(c) == old(dp(c)) + 1 || dd(c)
  ensures none: !ret ==> dp(c) == old(dp(c)) || dd(c)
  ensures sticky: old(dd(c)) ==> dd(c)
  loop 1
    invariant lastCompilableIndex >= -1 && lastCompilableIndex < range_idx
    invariant same: dp(c) == old(dp(c))
    invariant sticky: old(dd(c)) ==> dd(c)
  loop 2
    invariant 0 <= lastCompilableIndex && lastCompilableIndex < len(collection) && (old(dd(c)) ==> dd(c))
    invariant before: range_idx <= lastCompilableIndex ==> dp(c) == old(dp(c)) || dd(c)
    invariant after: range_idx > lastCompilableIndex ==> dp(c) == old(dp(c)) + 1 || dd(c)""",
 'compileUnhygienicExpressionNode': HEAD + "\n" + PROTO,
 'compileTypeofExpressionNode': HEAD + "\n" + PROTO,
 'compileTryExpressionNode': HEAD + "\n" + PROTO,
 'compileLabeledExpressionNode': HEAD + "\n" + PROTO,
 'compileLogicalExpressionNode': HEAD + "\n" + PROTO_NOFLAG + """
  ensures used: !valueIsIgnored ==> ret == expressionCompiled""",
}
hand['compileAsExpressionNode'] = HEAD + "\n" + ONE      # value, type, AS pops the type
hand['compileMustExpressionNode'] = HEAD + "\n" + ONE    # value, MUST peeks
hand['compileAwaitExpressionNode'] = HEAD + "\n" + ONE   # promise, the await opcodes replace it by its result
hand['compileThrowExpressionNode'] = HEAD + "\n" + ONE + "\n  ensures dead: dd(c)"   # THROW never falls through
for n in ('nilCoalescing', 'logicalOr', 'logicalAnd'):
    hand[n] = HEAD + "\n" + PROTO_NOFLAG + """
  ensures code: valueIsIgnored ==> ret == expressionCompiledWithoutResult
  ensures code2: !valueIsIgnored ==> ret == expressionCompiled
  // the join: the path that took the jump arrives with the depth the fall-through path has
  assert before patchJump#1: ghost(jdepth, jkey(c, jump)) == dp(c) || dd(c)"""

# special node compilers
special = {
 # a return never falls through
 'compileReturnExpressionNode': "  ensures dead: dd(c)",
 # value pushed, YIELD consumes it; the generator resumes with nothing on top
 'compileYieldExpressionNode': ZERO,
}
ABORT_SITES = {'compileDeferExpressionNode': ('compileFunction', 'closureCompiler'),
               'compileGoExpressionNode': ('compileFunctionStatements', 'closureCompiler'),
               'compileClosureLiteralNode': ('compileFunctionStatements', 'closureCompiler'),
               'compileMacroBoundaryNode': ('compileStatementsWithResult', '@scope'),
               'compileBreakExpressionNode': ('countFinallyInLoop', '@break')}
PURE = {'nodeIsCompilable', 'resolve', 'typeOf', 'isNestedInFinally'}

callees = {}
for p in PLUMBING:
    _, _, b = body(p)
    for m in re.finditer(r'\bc\.(\w+)\(', b):
        callees.setdefault(m.group(1), set()).add(p)

out = ['''//go:build verif

package compiler

// GENERATED by /verif/tools/gen_depth_contracts.py — operand-stack accounting of the node
// dispatch (C29).  See the generator for the reading of the ghost state.

/*@
spec fn dp(c *BytecodeCompiler) int = ghost(depth, c)
spec fn dd(c *BytecodeCompiler) bool = ghost(dead, c) == 1

// ---- verified: dispatch and plumbing ----------------------------------------------------------
''']
for p in PLUMBING:
    h = hand[p]
    if "\n  loop 1" in h:
        i = h.index("\n  loop 1")
        h = h[:i] + JKEEP + h[i:]
        h = h.replace("\n  loop 2", "\n    invariant jk: " + JINV + "\n  loop 2") + "\n    invariant jk: " + JINV
    elif "\n  // the join" in h:
        i = h.index("\n  // the join")
        h = h[:i] + JKEEP + h[i:]
    else:
        h += JKEEP
    out.append("func (*BytecodeCompiler).%s\n%s\n" % (p, h))
out.append("// ---- assumed: the node compilers the dispatch calls ----------------------------------------\n")
nleaf = 0
for name in sorted(callees):
    if name in PLUMBING or name in have:
        continue
    params, res, _ = body(name)
    out.append("func (*BytecodeCompiler).%s" % name)
    if name in ABORT_SITES:
        # also a creation site of a nested compiler (C33): verified for the call-site assertion
        # that the nested compiler carries this compiler's abort-check flag before it compiles
        # anything; the stack accounting of the node stays an assumption (ghostdef)
        callee, var = ABORT_SITES[name]
        if var == "@break":
            # C29: a break always leaves exactly one value (the loop's result: the given one or nil)
            # on top when its jump sequence starts
            out.append("  props C29")
            out.append("  nosafety")
            out.append("  partial")
            out.append("  requires c != nil")
            out.append("  assigns everything")
            proto = (PROTO if 'valueIsIgnored' in params else ONE) + JKEEP
            out.append(proto.replace("  ensures ", "  ensures ghostdef "))
            out.append("  assert before %s#1: ghost(depth, c) == old(ghost(depth, c)) + 1 || ghost(dead, c) == 1" % callee)
            out.append("")
            nleaf += 1
            continue
        if var == "@scope":
            # C31: the expansion of a macro is compiled inside a scope of its own, so that a local
            # it declares gets a slot of its own and cannot overwrite a caller's local of the same name
            out.append("  props C31")
            out.append("  nosafety")
            out.append("  partial")
            out.append("  requires c != nil")
            out.append("  assigns everything")
            proto = (PROTO if 'valueIsIgnored' in params else ONE) + JKEEP
            out.append(proto.replace("  ensures ", "  ensures ghostdef "))
            out.append("  assert before %s#1: len(c.scopes) == old(len(c.scopes)) + 1" % callee)
            out.append("")
            nleaf += 1
            continue
        out.append("  props C33")
        out.append("  nosafety")
        out.append("  partial")
        out.append("  requires c != nil")
        out.append("  assigns everything")
        proto = (PROTO if 'valueIsIgnored' in params else ONE) + JKEEP
        out.append(proto.replace("  ensures ", "  ensures ghostdef "))
        out.append("  assert before %s#1: %s.additionalAbortChecks == c.additionalAbortChecks" % (callee, var))
        out.append("")
        nleaf += 1
        continue
    out.append("  trusted")
    if name in PURE or (res and res != 'expressionResult'):
        # queries: no code emitted
        out.append("  pure")
        out.append("  assigns nothing")
        out.append("")
        continue
    nleaf += 1
    out.append("  assigns everything")
    if name in special:
        out.append(special[name])
        out.append("  ensures sticky: old(dd(c)) ==> dd(c)" if 'sticky' not in special[name] else "")
    elif res == 'expressionResult':
        # without the flag a node compiler cannot know that its value is unused: it never
        # answers "compiled, nothing left"
        out.append(PROTO if 'valueIsIgnored' in params else PROTO_NOFLAG + "\n  ensures value: ret != expressionCompiledWithoutResult")
    else:
        out.append(ONE)
    out.append(JKEEP.strip("\n"))
    out.append("")
out.append("@*/")
open('/repo/compiler/verif_contracts_depth.go', 'w').write('\n'.join(out) + '\n')
print(len(PLUMBING), "verified,", nleaf, "assumed node compilers")
