#!/usr/bin/env python3
"""Writes the C23 contract block of /repo/vm/verif_contracts.go (between the marker
`// ==== C23` and the marker `// ==== end C23`).  The eight range kinds differ only in which
bound is inclusive, so the block comes from one table; the output is ordinary contract text that
is committed and read by elkvc like any other contract."""
import sys

out = []
w = out.append
w("// ==== C23: ranges agree with their bounds ================================================")
w("// (this block is written by /verif/tools/gen_c23_contracts.py)")
w("// The order on range elements is whatever >, >=, <, <= and ++ of the element type are (they may")
w("// dispatch to Elk code): they are modelled as pure functions of their operands.  What is")
w("// proved is that each range kind consults exactly the comparison its bounds call for.")
for fn in ("GreaterThan", "GreaterThanEqual", "LessThan", "LessThanEqual"):
    w("func %s" % fn)
    w("  trusted")
    w("  pure")
    w("  assigns nothing")
    w("")
w("func Increment")
w("  trusted")
w("  pure")
w("  assigns nothing")
w("")
CMP = {"gt": "GreaterThan", "ge": "GreaterThanEqual", "lt": "LessThan", "le": "LessThanEqual"}
for k, fn in CMP.items():
    w("spec fn %sOk(vm *Thread, a value.Value, b value.Value) bool = snd(%s(vm, a, b)).flag == value.UNDEFINED_FLAG" % (k, fn))
    w("spec fn %sErr(vm *Thread, a value.Value, b value.Value) value.Value = snd(%s(vm, a, b))" % (k, fn))
    w("spec fn %s(vm *Thread, a value.Value, b value.Value) bool = value.Truthy(fst(%s(vm, a, b)))" % (k, fn))
w("spec fn incOk(vm *Thread, a value.Value) bool = snd(Increment(vm, a)).flag == value.UNDEFINED_FLAG")
w("spec fn incErr(vm *Thread, a value.Value) value.Value = snd(Increment(vm, a))")
w("spec fn succ(vm *Thread, a value.Value) value.Value = fst(Increment(vm, a))")
w("")

# kind: name, lower comparator (val CMP Start) or None, upper comparator (val CMP End) or None
KINDS = [
    ("ClosedRange", "ge", "le"), ("OpenRange", "gt", "lt"), ("LeftOpenRange", "gt", "le"),
    ("RightOpenRange", "ge", "lt"), ("BeginlessClosedRange", None, "le"), ("BeginlessOpenRange", None, "lt"),
    ("EndlessClosedRange", "ge", None), ("EndlessOpenRange", "gt", None),
]
for name, lo, hi in KINDS:
    w("// %s: val is contained iff %s" % (name, " and ".join(x for x in [lo and "val %s start" % lo, hi and "val %s end" % hi] if x)))
    w("func %sContains" % name)
    w("  props C23")
    w("  requires r != nil")
    w("  assigns nothing")
    if lo and hi:
        L = "%s(vm, val, r.Start)" % lo
        LOK = "%sOk(vm, val, r.Start)" % lo
        LERR = "%sErr(vm, val, r.Start)" % lo
        H = "%s(vm, val, r.End)" % hi
        HOK = "%sOk(vm, val, r.End)" % hi
        HERR = "%sErr(vm, val, r.End)" % hi
        w("  ensures lowerr: !%s ==> !ret0 && ret1 == %s" % (LOK, LERR))
        w("  ensures below: %s && !%s ==> !ret0 && ret1 == value.Undefined" % (LOK, L))
        w("  ensures upperr: %s && %s && !%s ==> !ret0 && ret1 == %s" % (LOK, L, HOK, HERR))
        w("  ensures within: %s && %s && %s ==> ret1 == value.Undefined && (ret0 <==> %s)" % (LOK, L, HOK, H))
    else:
        c, fld = (lo, "Start") if lo else (hi, "End")
        w("  ensures err: !%sOk(vm, val, r.%s) ==> !ret0 && ret1 == %sErr(vm, val, r.%s)" % (c, fld, c, fld))
        w("  ensures within: %sOk(vm, val, r.%s) ==> ret1 == value.Undefined && (ret0 <==> %s(vm, val, r.%s))" % (c, fld, c, fld))
    w("")

STOP = "stopSym(ret1)"
w("spec fn stopSym(v value.Value) bool = v == value.ToSymbol(\"stop_iteration\").ToValue()")
w("")
# iterators.  start-inclusive kinds keep the NEXT element in CurrentElement; start-exclusive kinds the LAST one
ITER = [
    # name, inclusive start?, stop comparator applied to (candidate, End) or None
    ("ClosedRange", True, "gt"), ("RightOpenRange", True, "ge"),
    ("OpenRange", False, "ge"), ("LeftOpenRange", False, "gt"),
    ("EndlessClosedRange", True, None), ("EndlessOpenRange", False, None),
]
for name, incl, stop in ITER:
    w("func %sIteratorNext" % name)
    w("  props C23")
    w("  requires i != nil && i.Range != nil")
    if name == "ClosedRange":
        # this one interns the symbol on the spot: the global table must be usable
        w("  requires value.SymbolTable != nil && lockOf(value.SymbolTable) == 0")
    cur = "old(i.CurrentElement)"
    if incl:
        # candidate = cur
        cand = cur
        if stop:
            SOK = "old(%sOk(vm, i.CurrentElement, i.Range.End))" % stop
            S = "old(%s(vm, i.CurrentElement, i.Range.End))" % stop
            w("  ensures cmperr: !%s ==> ret0 == value.Undefined && ret1 == old(%sErr(vm, i.CurrentElement, i.Range.End)) && i.CurrentElement == %s" % (SOK, stop, cur))
            sym = "" if name == "ClosedRange" else " && ret1 == stopIterationSymbol.ToValue()"
            w("  ensures stop: %s && %s ==> ret0 == value.Undefined%s && i.CurrentElement == %s" % (SOK, S, sym, cur))
            pre = "%s && !%s && " % (SOK, S)
        else:
            pre = ""
        w("  ensures incerr: %s!old(incOk(vm, i.CurrentElement)) ==> ret0 == value.Undefined && ret1 == old(incErr(vm, i.CurrentElement)) && i.CurrentElement == %s" % (pre, cur))
        w("  ensures yield: %sold(incOk(vm, i.CurrentElement)) ==> ret0 == %s && ret1 == value.Undefined && i.CurrentElement == old(succ(vm, i.CurrentElement))" % (pre, cur))
    else:
        nxt = "old(succ(vm, i.CurrentElement))"
        w("  ensures incerr: !old(incOk(vm, i.CurrentElement)) ==> ret0 == value.Undefined && ret1 == old(incErr(vm, i.CurrentElement)) && i.CurrentElement == %s" % cur)
        if stop:
            SOK = "old(%sOk(vm, succ(vm, i.CurrentElement), i.Range.End))" % stop
            S = "old(%s(vm, succ(vm, i.CurrentElement), i.Range.End))" % stop
            w("  ensures cmperr: old(incOk(vm, i.CurrentElement)) && !%s ==> ret0 == value.Undefined && ret1 == old(%sErr(vm, succ(vm, i.CurrentElement), i.Range.End))" % (SOK, stop))
            w("  ensures stop: old(incOk(vm, i.CurrentElement)) && %s && %s ==> ret0 == value.Undefined && ret1 == stopIterationSymbol.ToValue()" % (SOK, S))
            w("  ensures yield: old(incOk(vm, i.CurrentElement)) && %s && !%s ==> ret0 == %s && ret1 == value.Undefined && i.CurrentElement == %s" % (SOK, S, nxt, nxt))
        else:
            w("  ensures yield: old(incOk(vm, i.CurrentElement)) ==> ret0 == %s && ret1 == value.Undefined && i.CurrentElement == %s" % (nxt, nxt))
    w("  ensures range: i.Range == old(i.Range)")
    w("")
w("// ==== end C23")

path = sys.argv[1] if len(sys.argv) > 1 else "/repo/vm/verif_contracts.go"
s = open(path).read()
block = "\n".join(out) + "\n"
if "// ==== C23" in s:
    a = s.index("// ==== C23")
    b = s.index("// ==== end C23") + len("// ==== end C23\n")
    s = s[:a] + block + s[b:]
else:
    m = "// ==== stack traces (C32)"
    assert s.count(m) == 1
    s = s.replace(m, block + "\n" + m, 1)
open(path, "w").write(s)
print("wrote", len(out), "lines")
