#!/usr/bin/env python3
"""Writes the C07 contract block of /repo/value/verif_contracts.go (the part between the
markers `// ==== C07` and the closing `@*/`).  The nine fixed-width types have the same
methods with the same shape, so the block is produced from one table; the output is ordinary
contract text that is committed and read by elkvc like any other contract.
usage: gen_c07_contracts.py [path-to-verif_contracts.go]"""
import sys, re

TYPES = [  # name, flag, signed, bits
    ("Int8", "INT8_FLAG", True, 8), ("Int16", "INT16_FLAG", True, 16),
    ("Int32", "INT32_FLAG", True, 32), ("Int64", "INT64_FLAG", True, 64),
    ("UInt8", "UINT8_FLAG", False, 8), ("UInt16", "UINT16_FLAG", False, 16),
    ("UInt32", "UINT32_FLAG", False, 32), ("UInt64", "UINT64_FLAG", False, 64),
    ("UInt", "UINT_FLAG", False, 64),
]
INST = ["Int8", "UInt8", "Int64", "UInt64", "Int32", "Int16", "UInt32", "UInt16", "UInt"]

def wrapname(signed, bits):
    return ("wrapS%d" if signed else "wrapU%d") % bits

out = []
w = out.append
w("// ==== C07: fixed-width integers =============================================================")
w("// (this block is written by /verif/tools/gen_c07_contracts.py)")
w("// Reference semantics: two's-complement arithmetic modulo 2^bits.  wrapW reduces a mathematical")
w("// integer to the representable range; shlW / asrW / lsrW are the three shifts for a count n >= 0.")
w("spec fn wrapW(v int, bits int, signed bool) int = ite(signed, emod(v + pow2(bits - 1), pow2(bits)) - pow2(bits - 1), emod(v, pow2(bits)))")
w("spec fn shlW(x int, n int, bits int, signed bool) int = ite(n >= bits, 0, wrapW(x * pow2(n), bits, signed))")
w("spec fn asrW(x int, n int, bits int) int = ite(n >= bits, ite(x < 0, -1, 0), ediv(x, pow2(n)))")
w("spec fn lsrW(x int, n int, bits int, signed bool) int = ite(n >= bits, 0, wrapW(ediv(emod(x, pow2(bits)), pow2(n)), bits, signed))")
w("// value of an integer operand held inline in a Value (every AnyInt except a big Int)")
w("spec fn cntInl(v Value) int = ite(v.flag == SMALL_INT_FLAG || v.flag == INT64_FLAG, wrapS64(v.data), ite(v.flag == INT32_FLAG, wrapS32(v.data), ite(v.flag == INT16_FLAG, wrapS16(v.data), ite(v.flag == INT8_FLAG, wrapS8(v.data), ite(v.flag == UINT32_FLAG, wrapU32(v.data), ite(v.flag == UINT16_FLAG, wrapU16(v.data), ite(v.flag == UINT8_FLAG, wrapU8(v.data), wrapU64(v.data))))))))")
w("spec fn isInlInt(v Value) bool = v.flag == SMALL_INT_FLAG || v.flag == INT64_FLAG || v.flag == INT32_FLAG || v.flag == INT16_FLAG || v.flag == INT8_FLAG || v.flag == UINT_FLAG || v.flag == UINT64_FLAG || v.flag == UINT32_FLAG || v.flag == UINT16_FLAG || v.flag == UINT8_FLAG")
w("// every right operand the headers admit (Std::AnyInt: Int of either representation and the")
w("// nine sized kinds); a big Int operand is canonical (C06): it does not fit a machine word")
w("spec fn isAnyInt(v Value) bool = wfv(v) && (isInlInt(v) || (isBig(v) && !fitsSmall(bigval(v.ptr))))")
w("")

# ---- generic shift helpers ----------------------------------------------------------------
def inst_lines():
    return ["  instantiate %s" % t for t in INST]

B = "bitsof(left)"
S = "issigned(left)"
LSR_FP = "ret == lsrW(l, r, bitsof(l), issigned(l))"

def helper(name, pos_expr, neg_expr, bigpos, bigneg, fnparam):
    w("func %s" % name)
    w("  props C07 C01")
    for l in inst_lines():
        w(l)
    if fnparam:
        w("  fnparam shiftFunc(l, r): " + LSR_FP)
    w("  requires isAnyInt(right)")
    w("  ensures accepted: ret1 == Undefined")
    w("  ensures pos: isInlInt(right) && cntInl(right) >= 0 ==> ret0 == " + pos_expr.replace("N", "cntInl(right)"))
    w("  ensures neg: isInlInt(right) && cntInl(right) < 0 ==> ret0 == " + neg_expr.replace("N", "(-cntInl(right))"))
    w("  ensures bigpos: isBig(right) && bigval(right.ptr) > 0 ==> ret0 == " + bigpos)
    w("  ensures bigneg: isBig(right) && bigval(right.ptr) < 0 ==> ret0 == " + bigneg)
    w("")

SHL = "shlW(left, N, %s, %s)" % (B, S)
ASR = "asrW(left, N, %s)" % B
LSR = "lsrW(left, N, %s, %s)" % (B, S)
FILL = "ite(left < 0, -1, 0)"
w("// the generic helpers behind <<, >>, <<<, >>> for a fixed-width left operand: a negative count")
w("// shifts the other way; a count of any size is accepted")
helper("StrictIntLogicalLeftBitshift", SHL, LSR, "0", "0", True)
helper("StrictIntLogicalRightBitshift", LSR, SHL, "0", "0", True)
helper("StrictIntRightBitshift", ASR, SHL, FILL, "0", False)
helper("StrictIntLeftBitshift", SHL, ASR, "0", FILL, False)

for n in (64, 32, 16, 8):
    w("func LogicalRightShift%d" % n)
    w("  props C07")
    for t, _, sg, bits in TYPES:
        if bits == n:
            w("  instantiate %s" % t)
    w("  ensures lsr: ret == lsrW(left, right, bitsof(left), issigned(left))")
    w("")

# ---- per type methods ---------------------------------------------------------------------
for t, flag, signed, bits in TYPES:
    wr = wrapname(signed, bits)
    dec = "%s(other.data)" % wr
    sg = "true" if signed else "false"
    acc = "other.flag == %s" % flag
    w("// ---- %s" % t)
    def binop(name, expr):
        w("func (%s).%s" % (t, name))
        w("  props C07")
        w("  ensures accepted: %s ==> ret1 == Undefined" % acc)
        w("  ensures value: %s ==> ret0 == %s" % (acc, expr))
        w("")
    binop("Add", "wrapW(i + %s, %d, %s)" % (dec, bits, sg))
    binop("Subtract", "wrapW(i - %s, %d, %s)" % (dec, bits, sg))
    binop("Multiply", "wrapW(i * %s, %d, %s)" % (dec, bits, sg))
    binop("BitwiseAnd", "i & wrapas(i, other.data)")
    binop("BitwiseAndNot", "i &^ wrapas(i, other.data)")
    binop("BitwiseOr", "i | wrapas(i, other.data)")
    binop("BitwiseXor", "i ^ wrapas(i, other.data)")
    for name in ("Divide", "ModuloVal"):
        op = "tdiv" if name == "Divide" else "tmod"
        w("func (%s).%s" % (t, name))
        w("  props C07")
        w("  ensures accepted: %s && %s != 0 ==> ret1 == Undefined" % (acc, dec))
        w("  ensures value: %s && %s != 0 ==> ret0 == wrapW(%s(i, %s), %d, %s)" % (acc, dec, op, dec, bits, sg))
        w("  ensures zero: %s && %s == 0 ==> ret1.flag != UNDEFINED_FLAG" % (acc, dec))
        w("")
    for name, op in (("Divide" + t, "tdiv"), ("Modulo" + t, "tmod")):
        w("func (%s).%s" % (t, name))
        w("  props C07")
        w("  ensures accepted: other != 0 ==> ret1 == Undefined")
        w("  ensures value: other != 0 ==> ret0 == wrapW(%s(i, other), %d, %s)" % (op, bits, sg))
        w("  ensures zero: other == 0 ==> ret1.flag != UNDEFINED_FLAG")
        w("")
    w("func (%s).Exponentiate%s" % (t, t))
    w("  props C07")
    w("  ensures nonpos: other <= 0 ==> ret == 1")
    w("  ensures one: other == 1 ==> ret == i")
    w("  ensures try pow: other > 0 ==> ret == wrapW(ipow(i, other), %d, %s)" % (bits, sg))
    w("  loop 1")
    w("    invariant bounds: 1 <= j && j <= other")
    w("    invariant try acc: result == wrapW(ipow(i, j), %d, %s)" % (bits, sg))
    w("    invariant first: j == 1 ==> result == i")
    w("    decreases other - j")
    w("")
    w("func (%s).ExponentiateVal" % t)
    w("  props C07")
    w("  ensures accepted: %s ==> ret1 == Undefined" % acc)
    w("")
    if signed:
        w("func (%s).LeftBitshift%s" % (t, t))
        w("  props C07")
        w("  ensures pos: other >= 0 ==> ret == shlW(i, other, %d, true)" % bits)
        w("  ensures neg: other < 0 ==> ret == asrW(i, -other, %d)" % bits)
        w("")
        w("func (%s).RightBitshift%s" % (t, t))
        w("  props C07")
        w("  ensures pos: other >= 0 ==> ret == asrW(i, other, %d)" % bits)
        w("  ensures neg: other < 0 ==> ret == shlW(i, -other, %d, true)" % bits)
        w("")
    else:
        w("func (%s).LeftBitshift%s" % (t, t))
        w("  props C07")
        w("  ensures shl: ret == shlW(i, other, %d, false)" % bits)
        w("")
        w("func (%s).RightBitshift%s" % (t, t))
        w("  props C07")
        w("  ensures shr: ret == asrW(i, other, %d)" % bits)
        w("")

block = "\n".join(out) + "\n@*/\n"
path = sys.argv[1] if len(sys.argv) > 1 else "/repo/value/verif_contracts.go"
s = open(path).read()
i = s.index("// ==== C07")
open(path, "w").write(s[:i] + block)
print("wrote", len(out), "lines")
