#!/bin/bash
# usage: confirm_seed.sh <ID> [suffix]   — confirms a seeded change in its scratch worktree /tmp/wt-<ID><suffix>:
#   demo fails with the patch, passes without, and the existing tests (whole suite) pass with the patch.
# Writes /tmp/seed-<ID><suffix>/confirm.log
id=$1; sfx=$2
wt=/tmp/wt-$id$sfx; sd=/tmp/seed-$id$sfx
log=$sd/confirm.log
exec > $log 2>&1
cd $wt || exit 2
git checkout -q -- . ; git clean -fdq
demo=$(python3 -c "import json;print(json.load(open('$sd/meta.json'))['demo_cmd'])")
echo "== demo_cmd: $demo"
echo "== WITHOUT patch"
bash -c "$demo" > $sd/demo_without.log 2>&1; echo "exit=$?"; tail -5 $sd/demo_without.log
git checkout -q -- . ; git clean -fdq
echo "== WITH patch"
git apply $sd/patch.diff || { echo "PATCH DOES NOT APPLY"; exit 1; }
bash -c "$demo" > $sd/demo_with.log 2>&1; echo "exit=$?"; tail -8 $sd/demo_with.log
# remove demo files (untracked) before the suite
git clean -fdq
echo "== build + suite WITH patch"
go build -mod=mod ./... && echo BUILD-OK
go test -mod=mod -json -vet=off -count=1 -timeout 25m ./... > $sd/suite.json 2>/dev/null
for attempt in 1 2; do
  pk=$(python3 - $sd/suite.json <<'PY'
import json,sys
passed=set()
for l in open(sys.argv[1]):
    try: e=json.loads(l)
    except Exception: continue
    if e.get('Test') and e.get('Action')=='pass': passed.add(e['Package']+'::'+e['Test'])
sp=set(json.load(open('/root/.vp/BASELINE.json'))['stable_pass'])
print(' '.join(sorted({m.split('::')[0] for m in sp-passed})))
PY
)
  [ -z "$pk" ] && break
  echo "re-running: $pk"
  go test -mod=mod -json -vet=off -count=1 -timeout 25m $pk >> $sd/suite.json 2>/dev/null
done
python3 - $sd/suite.json <<'PY'
import json,sys
passed=set(); failed=set()
for l in open(sys.argv[1]):
    try: e=json.loads(l)
    except Exception: continue
    if e.get('Test') and e.get('Action') in('pass','fail'):
        (passed if e['Action']=='pass' else failed).add(e['Package']+'::'+e['Test'])
sp=set(json.load(open('/root/.vp/BASELINE.json'))['stable_pass'])
missing=sorted(sp-passed)
print(f"SUITE stable_pass={len(sp)} passed_now={len(passed)} stable_not_passing={len(missing)}")
for m in missing[:10]: print("  NOT PASSING:",m)
PY
git checkout -q -- . ; git clean -fdq
rm -f $sd/suite.json
echo "== done"
