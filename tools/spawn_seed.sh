#!/bin/bash
# usage: spawn_seed.sh <ID> [suffix] — creates the scratch worktree and output dir for a seed agent and
# prints the prompt to give it (the statement text comes from properties.jsonl only).
id=$1; sfx=$2
wt=/tmp/wt-$id$sfx; out=/tmp/seed-$id$sfx
git -C /repo worktree add -f --detach $wt HEAD >/dev/null 2>&1 || { echo "worktree failed"; exit 1; }
# the agent must not see the contracts: remove the comment-only contract files from its worktree
# (skip-worktree keeps `git diff` / `git status` there silent about the removal)
for f in $(git -C $wt ls-files | grep 'verif_contracts[a-z_0-9]*\.go$'); do
  git -C $wt update-index --skip-worktree $f && rm -f $wt/$f
done
mkdir -p $out
python3 - "$id" "$wt" "$out" <<'PY'
import json,sys
id,wt,out=sys.argv[1:4]
st=None
for l in open('/verif/properties.jsonl'):
    p=json.loads(l)
    if p['id']==id: st=p['statement']
t=open('/verif/tools/seed_prompt.txt').read()
t=t.replace('__WT__',wt).replace('__OUT__',out).replace('__ID__',id).replace('__STATEMENT__',st)
open(out+'/prompt.txt','w').write(t)
print(out+'/prompt.txt')
PY
