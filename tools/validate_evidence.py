#!/usr/bin/env python3
"""Validates /verif/evidence/*.json against MANIFEST.json before a commit.

Every claimed check must have an evidence file that is a record of a QUIET run on the unchanged tree:
schema-valid, right property and level, discharged == obligations > 0, no violations.  Evidence files of
properties that are not claimed are reported (a stale file from work in progress must not be committed).
Run by tools/refresh_evidence.sh; exit 0 only when everything is consistent.
"""
import json, os, sys, glob

V = os.path.dirname(os.path.dirname(os.path.abspath(__file__)))
SCHEMA = "/root/.vp/EVIDENCE.schema.json"


def main():
    man = json.load(open(os.path.join(V, "MANIFEST.json")))
    claimed = {c["property_id"]: c for c in man["checks"]}
    bad = []
    validate = None
    try:
        import jsonschema
        if os.path.exists(SCHEMA):
            schema = json.load(open(SCHEMA))
            validate = lambda d: jsonschema.validate(d, schema)
    except ImportError:
        print("note: jsonschema not importable with this python (use python3-vt); structural checks only")
    for pid, c in sorted(claimed.items()):
        path = c["evidence_file"]
        if not os.path.exists(path):
            bad.append(f"{pid}: evidence file {path} missing")
            continue
        try:
            d = json.load(open(path))
        except Exception as e:
            bad.append(f"{pid}: {path} is not JSON: {e}")
            continue
        if validate:
            try:
                validate(d)
            except Exception as e:
                bad.append(f"{pid}: schema: {str(e).splitlines()[0]}")
        cov = d.get("coverage", {})
        if d.get("property_id") != pid:
            bad.append(f"{pid}: property_id is {d.get('property_id')!r}")
        if d.get("level") != c["level_claimed"]["category"]:
            bad.append(f"{pid}: level {d.get('level')!r} != claimed {c['level_claimed']['category']!r}")
        if d.get("tier") not in ("quick", "thorough"):
            bad.append(f"{pid}: tier {d.get('tier')!r}")
        if d.get("violations", 0) != 0:
            bad.append(f"{pid}: records {d['violations']} violations (run on a modified tree?)")
        if d.get("level") == "proof":
            o, n = cov.get("obligations"), cov.get("discharged")
            if not isinstance(o, int) or o < 1 or o != n:
                bad.append(f"{pid}: coverage.discharged ({n}) != obligations ({o})")
            if not cov.get("checker_cmd", "").strip():
                bad.append(f"{pid}: empty checker_cmd")
            if not isinstance(cov.get("trusted_base"), list):
                bad.append(f"{pid}: trusted_base missing")
            ol = cov.get("obligation_list")
            if isinstance(ol, list) and o is not None and len(ol) != o:
                bad.append(f"{pid}: obligation_list has {len(ol)} entries, obligations says {o}")
        if not cov.get("samples"):
            bad.append(f"{pid}: no samples")
    for f in sorted(glob.glob(os.path.join(V, "evidence", "*.json"))):
        pid = os.path.basename(f)[:-5]
        if pid not in claimed:
            bad.append(f"{pid}: evidence file present but the property is not claimed in MANIFEST.json")
    for b in bad:
        print("EVIDENCE-PROBLEM", b)
    print(f"{len(claimed)} claimed checks, {len(bad)} evidence problems")
    return 1 if bad else 0


if __name__ == "__main__":
    sys.exit(main())
