#!/bin/bash
# usage: try_seed.sh <seed-dir-name> <PROP> [<PROP>...]  — applies seeded/<name>/patch.diff to /repo,
# runs the quick checks, reverts.  /repo must be clean (committed) first.
name=$1; shift
cd /verif
if [ -n "$(git -C /repo status --porcelain)" ]; then echo "REFUSED: /repo has uncommitted changes"; exit 2; fi
cp -r evidence /tmp/evidence.save.$$
git -C /repo apply /verif/seeded/$name/patch.diff || { echo "patch does not apply"; exit 2; }
for p in "$@"; do
  echo "=== $p with seeded/$name"
  bin/check $p quick 2>&1 | grep -E "VIOLATION|KNOWN-FINDING|UNDECIDED|FAILED|replay:|obligations discharged" | cut -c1-260
  echo "exit=${PIPESTATUS[0]}"
done
git -C /repo checkout -- .
rm -rf evidence && mv /tmp/evidence.save.$$ evidence
git -C /repo status --porcelain
