#!/bin/bash
# usage: tools/selftest.sh [<seed-dir-name>...]
# Must-fail corpus: applies every seeded change under /verif/seeded (or the ones named) to /repo in turn,
# runs the quick check of the property it breaks, reverts, and reports CAUGHT / MISSED per seed.
# Seeds whose meta.json says "not_caught" are expected misses (listed, not failures).
# /repo must be clean; evidence/ is saved and restored by tools/try_seed.sh.
cd "$(dirname "$0")/.."
seeds="$*"
[ -z "$seeds" ] && seeds=$(ls seeded)
rc=0
for s in $seeds; do
  prop=$(python3 -c "import json;print(json.load(open('seeded/$s/meta.json'))['property'])")
  expect=$(python3 -c "import json;m=json.load(open('seeded/$s/meta.json'));print('miss' if 'not_caught' in m else 'catch')")
  out=$(tools/try_seed.sh $s $prop 2>&1)
  if echo "$out" | grep -q "^VIOLATION property=$prop"; then
    n=$(echo "$out" | grep -c "^VIOLATION")
    echo "CAUGHT  $s ($prop): $n violation line(s)"
  elif [ "$expect" = "miss" ]; then
    echo "MISSED  $s ($prop): expected (recorded as not caught)"
  else
    echo "MISSED  $s ($prop): UNEXPECTED"; echo "$out" | tail -3; rc=1
  fi
done
exit $rc
