#!/bin/bash
# usage: tools/refresh_evidence.sh [<PROP>...]
# Re-runs the quick command of every claimed check (or the ones named) the way the checks are exercised:
# on the committed /repo tree, evidence file removed first, offline environment.  Then validates every
# evidence file (tools/validate_evidence.py).  Run this before committing /verif: the committed evidence
# must be the record of a quiet run on the unchanged tree, never the leftover of a seeded-fault trial.
cd "$(dirname "$0")/.."
if [ -n "$(git -C /repo status --porcelain)" ]; then echo "REFUSED: /repo has uncommitted changes"; exit 2; fi
export CARGO_NET_OFFLINE=true GOPROXY=off PIP_NO_INDEX=1 VERIF_SEED=${VERIF_SEED:-1} VERIF_TIER=quick
PY=python3; command -v python3-vt >/dev/null && PY=python3-vt
props="$*"
[ -z "$props" ] && props=$(python3 -c "import json;print(' '.join(c['property_id'] for c in json.load(open('MANIFEST.json'))['checks']))")
bin/setup >/dev/null || { echo "setup failed"; exit 2; }
rc=0
for p in $props; do
  cmd=$(python3 -c "import json,sys;print([c['quick_cmd'] for c in json.load(open('MANIFEST.json'))['checks'] if c['property_id']==sys.argv[1]][0])" $p)
  rm -f evidence/$p.json
  out=$(bash -c "$cmd" 2>&1); ec=$?
  echo "$out" | grep -E "VIOLATION|KNOWN-FINDING|UNDECIDED|obligations discharged, " | cut -c1-200
  if [ $ec -ne 0 ] || echo "$out" | grep -q "^VIOLATION"; then echo "NOT QUIET: $p exit=$ec"; rc=1; fi
done
$PY tools/validate_evidence.py || rc=1
exit $rc
