# sourced by every script: offline Go 1.26.8 toolchain
export PATH=/opt/veriftools/go1.26.8/bin:$PATH
export GOTOOLCHAIN=local GOFLAGS=-mod=mod GOPROXY=off GOSUMDB=off CGO_ENABLED=0
export ELKROOT=/repo ELKPATH=/repo
