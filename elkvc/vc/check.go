package vc

import (
	"encoding/json"
	"fmt"
	"os"
	"path/filepath"
	"sort"
	"strings"
	"time"
)

type CheckResult struct {
	Property   string
	Tier       string
	Reports    []*FuncReport
	Violations []*Obligation
	Known      []string
	Undecided  []string
	Vacuous    []string
	OutOfSub   []string
	Missing    []string
	WallS      float64
}

// ContractsFor lists the contract keys claimed for a property.
func (e *Engine) ContractsFor(prop string) []string {
	var keys []string
	for k, c := range e.Contracts {
		for _, p := range c.Props {
			if p == prop {
				keys = append(keys, k)
			}
		}
	}
	sort.Strings(keys)
	return keys
}

func (e *Engine) RunCheck(prop, tier string, seed int, out *os.File) *CheckResult {
	t0 := time.Now()
	res := &CheckResult{Property: prop, Tier: tier}
	keys := e.ContractsFor(prop)
	for _, k := range keys {
		ct := e.Contracts[k]
		if ct.Trusted {
			continue
		}
		if len(ct.Instantiate) > 0 {
			insts := ct.Instantiate
			if tier == "quick" && len(insts) > 3 {
				insts = insts[:3]
			}
			for _, ta := range insts {
				res.Reports = append(res.Reports, e.VerifyFunc(k, ta))
			}
			continue
		}
		res.Reports = append(res.Reports, e.VerifyFunc(k, nil))
	}
	res.Reports = append(res.Reports, e.guardedCoverage(prop)...)
	opts := RunOpts{TimeoutS: 20, Seed: seed, Thorough: tier == "thorough"}
	if opts.Thorough {
		opts.TimeoutS = 60
	}
	e.Discharge(res.Reports, opts)
	for _, r := range res.Reports {
		if r.OutOfSubset != "" {
			if strings.HasPrefix(r.OutOfSubset, "function not found") {
				res.Missing = append(res.Missing, r.Key)
			} else {
				res.OutOfSub = append(res.OutOfSub, r.Key+": "+r.OutOfSubset)
			}
			continue
		}
		for _, o := range r.Obls {
			switch o.Status {
			case "failed":
				res.Violations = append(res.Violations, o)
			case "undecided":
				res.Undecided = append(res.Undecided, o.Name)
			case "vacuous":
				res.Vacuous = append(res.Vacuous, o.Name)
			}
			for i, f := range o.Findings {
				if i < len(o.FindingPresent) && o.FindingPresent[i] {
					res.Known = append(res.Known, fmt.Sprintf("KNOWN-FINDING: property=%s %s when %s: %s", prop, o.Name, f.When, f.Text))
				}
			}
		}
	}
	res.WallS = time.Since(t0).Seconds()
	return res
}

// Evidence JSON -------------------------------------------------------------

type oblEvidence struct {
	Name   string `json:"name"`
	Kind   string `json:"kind"`
	Status string `json:"status"`
	Solver string `json:"solver,omitempty"`
	Ms     int64  `json:"ms"`
	Clause string `json:"clause,omitempty"`
	Pos    string `json:"pos,omitempty"`
	Retried bool  `json:"decided_on_second_attempt,omitempty"`
}

func (e *Engine) WriteEvidence(res *CheckResult, seed int, checkerCmd string, extra map[string]any) error {
	var obls, tried []oblEvidence
	nObl, nDis := 0, 0
	var solverMs int64
	bySolver := map[string]int{}
	fns := []string{}
	trustedSet := map[string]bool{}
	opaqueSet := map[string]bool{}
	inlinedSet := map[string]bool{}
	var samples []any
	nonvac, vacChecks := 0, 0
	var pruned []string
	for _, r := range res.Reports {
		name := r.Key
		if r.Inst != "" {
			name += "[" + r.Inst + "]"
		}
		fns = append(fns, name)
		if r.Ctx != nil {
			for k := range r.Ctx.UsedContracts {
				if ct := e.Contracts[k]; ct != nil && (ct.Trusted || strings.HasSuffix(ct.File, ".spec")) {
					trustedSet[k] = true
				}
			}
			for k := range r.Ctx.Opaque {
				opaqueSet[k] = true
			}
			for k := range r.Ctx.Inlined {
				inlinedSet[k] = true
			}
			for _, p := range r.Ctx.Pruned {
				pruned = append(pruned, shortKey(name)+": path not verified beyond: "+p)
			}
			for k := range r.Ctx.Trusted {
				if strings.HasPrefix(k, "ghost definition") {
					trustedSet["ASSUMED, not proved (the clause defines how the function moves ghost state; the body has no ghost code to check it against): "+k] = true
					continue
				}
				trustedSet["library function modelled by its documented semantics: "+k] = true
			}
			for _, t := range r.Ctx.TypingUsed {
				trustedSet["typing fact assumed at entry of "+shortKey(name)+" (stored pointers lie below the allocation frontier): "+t] = true
			}
		}
		for _, o := range r.Obls {
			if o.MustFail {
				vacChecks++
				if o.Status == "nonvacuous" {
					nonvac++
				}
				continue
			}
			ev := oblEvidence{Name: o.Name, Kind: o.Kind, Status: o.Status, Solver: o.Result.Solver, Ms: o.Result.Ms, Clause: o.Src, Pos: o.Pos}
			ev.Retried = o.Retried
			if o.Try {
				// attempted but not claimed: kept apart so that len(obligation_list) == obligations
				tried = append(tried, ev)
				continue
			}
			obls = append(obls, ev)
			nObl++
			if o.Status == "discharged" {
				nDis++
				bySolver[o.Result.Solver]++
			}
			solverMs += o.Result.Ms
			if len(samples) < 3 && o.Kind == "post" && o.Query != "" {
				q := o.Query
				if len(q) > 6000 {
					q = q[:3000] + "\n...\n" + q[len(q)-2500:]
				}
				samples = append(samples, map[string]any{"obligation": o.Name, "clause": o.Src, "smt": q})
			}
		}
	}
	if len(samples) == 0 {
		for _, r := range res.Reports {
			for _, o := range r.Obls {
				if len(samples) < 2 && !o.MustFail && o.Query != "" {
					samples = append(samples, map[string]any{"obligation": o.Name, "clause": o.Src})
				}
			}
		}
	}
	if len(samples) == 0 {
		samples = append(samples, "no obligations generated")
	}
	keysOf := func(m map[string]bool) []string {
		var out []string
		for k := range m {
			out = append(out, k)
		}
		sort.Strings(out)
		return out
	}
	trusted := []string{
		"elkvc verification-condition generator (symbolic execution of go/ast + go/types; see DESIGN.md 3.3) — unverified core",
		"SMT solvers z3 4.8.12 / z3-new 5.1.0 / cvc5 1.0 (first unsat wins)",
		"linux/amd64: int = int64, uintptr 64 bit; struct sizes from go/types.Sizes",
		"machine integers modelled as mathematical Int with explicit two's-complement wrap after every arithmetic operation",
		"termination is proved only for loops with a `decreases` clause",
	}
	for _, k := range keysOf(trustedSet) {
		trusted = append(trusted, "assumed contract (library/trusted): "+k)
	}
	for _, k := range keysOf(opaqueSet) {
		trusted = append(trusted, "callee treated as opaque (results havoc'd, inferred mod-set): "+k)
	}
	cov := map[string]any{
		"obligations":              nObl,
		"discharged":               nDis,
		"checker_cmd":              checkerCmd,
		"trusted_base":             trusted,
		"samples":                  samples,
		"functions_under_contract": fns,
		"functions_inlined_from_real_source": keysOf(inlinedSet),
		"obligation_list":          obls,
		"attempted_not_claimed":    tried,
		"discharged_by_solver":     bySolver,
		"solver_ms_total":          solverMs,
		"undecided_not_claimed":    res.Undecided,
		"out_of_subset":            res.OutOfSub,
		"paths_not_verified":       pruned,
		"known_findings_reported":  res.Known,
		"vacuity":                  map[string]int{"must_fail_checks": vacChecks, "passed": nonvac},
		"explanation":              "every obligation is an SMT query generated from the current source of the function under contract; `discharged` counts unsat answers",
	}
	for k, v := range extra {
		cov[k] = v
	}
	ev := map[string]any{
		"property_id": res.Property,
		"tier":        res.Tier,
		"seed":        seed,
		"level":       "proof",
		"coverage":    cov,
		"assumptions": trusted,
		"wall_s":      res.WallS,
		"violations":  len(res.Violations),
	}
	b, err := json.MarshalIndent(ev, "", " ")
	if err != nil {
		return err
	}
	dir := filepath.Join(e.VerifDir, "evidence")
	os.MkdirAll(dir, 0o755)
	return os.WriteFile(filepath.Join(dir, res.Property+".json"), b, 0o644)
}
