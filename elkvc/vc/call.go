package vc

import (
	"fmt"
	"go/ast"
	"go/token"
	"go/types"
	"os"
	"sort"
	"strings"
)

const maxInlineDepth = 8

func (c *FnCtx) evalCall(env *Env, x *ast.CallExpr) Val {
	if env.spec {
		return c.specCall(env, x)
	}
	info := c.info()
	fun := unparen(x.Fun)
	// conversion
	if tv, ok := info.Types[fun]; ok && tv.IsType() {
		if len(x.Args) != 1 {
			c.unsup(x, "conversion arity")
		}
		return c.evalConversion(env, tv.Type, x.Args[0], x)
	}
	// strip explicit instantiation
	var instIdent *ast.Ident
	switch f := fun.(type) {
	case *ast.IndexExpr:
		if tv, ok := info.Types[f.X]; ok {
			if _, isSig := tv.Type.Underlying().(*types.Signature); isSig {
				fun = unparen(f.X)
			}
		}
	case *ast.IndexListExpr:
		fun = unparen(f.X)
	}
	switch f := fun.(type) {
	case *ast.Ident:
		instIdent = f
		switch o := info.ObjectOf(f).(type) {
		case *types.Builtin:
			return c.evalBuiltin(env, o.Name(), x)
		case *types.Func:
			args := c.evalArgs(env, x, o.Type().(*types.Signature))
			return c.callFunc(env, o, nil, args, x, c.instTargs(instIdent))
		}
	case *ast.SelectorExpr:
		instIdent = f.Sel
		if sel, ok := info.Selections[f]; ok {
			if sel.Kind() == types.MethodVal {
				m := sel.Obj().(*types.Func)
				recv := c.eval(env, f.X)
				// follow embedded path to the actual receiver
				idx := sel.Index()
				msig := m.Type().(*types.Signature)
				if len(idx) > 1 {
					if _, wantPtr := msig.Recv().Type().(*types.Pointer); wantPtr {
						// promoted method with a pointer receiver: p.M() is (&p.Embedded).M()
						if a, ok := c.embeddedAddr(env, recv, idx[:len(idx)-1], x); ok {
							args := c.evalArgs(env, x, msig)
							return c.callFunc(env, m, &a, args, x, nil)
						}
					}
					recv = c.fieldPath(env, recv, idx[:len(idx)-1], x)
				}
				rt := c.subst(recv.Typ)
				if _, isI := rt.Underlying().(*types.Interface); isI {
					args := c.evalArgs(env, x, msig)
					return c.dynamicCall(env, m, recv, args, x)
				}
				// adjust receiver pointer-ness
				_, wantPtr := msig.Recv().Type().(*types.Pointer)
				_, havePtr := rt.Underlying().(*types.Pointer)
				if wantPtr && !havePtr {
					recv = c.addrOf(env, f.X, x)
				} else if !wantPtr && havePtr {
					recv = c.deref(env, recv, x)
				}
				args := c.evalArgs(env, x, msig)
				return c.callFunc(env, m, &recv, args, x, nil)
			}
			if sel.Kind() == types.FieldVal {
				// call of a func-typed field
				fv := c.eval(env, f)
				sig := c.subst(fv.Typ).Underlying().(*types.Signature)
				args := c.evalArgs(env, x, sig)
				return c.opaqueCall(env, "funcvalue", sig, args, x, true)
			}
		}
		if o, ok := info.Uses[f.Sel].(*types.Func); ok {
			args := c.evalArgs(env, x, o.Type().(*types.Signature))
			return c.callFunc(env, o, nil, args, x, c.instTargs(instIdent))
		}
		if b, ok := info.Uses[f.Sel].(*types.Builtin); ok {
			return c.evalBuiltin(env, b.Name(), x)
		}
	case *ast.FuncLit:
		c.unsup(x, "immediately invoked closure")
	}
	// func value
	fv := c.eval(env, x.Fun)
	if sig, ok := c.subst(fv.Typ).Underlying().(*types.Signature); ok {
		args := c.evalArgs(env, x, sig)
		if id, isId := fun.(*ast.Ident); isId && c.C != nil && len(c.frames) == 1 {
			if fp := c.C.FnParams[id.Name]; fp != nil {
				if _, isVar := info.ObjectOf(id).(*types.Var); isVar && len(fp.Params) == len(args) && sig.Results().Len() == 1 {
					// call through a function-typed parameter with a `fnparam` contract: the
					// callee is side-effect free as far as the contract says; result constrained
					res := c.freshVal("fp_"+id.Name, sig.Results().At(0).Type(), env.st)
					c.assume(env.st, c.fnParamClause(env.st, fp, args, res))
					return res
				}
			}
		}
		return c.opaqueCall(env, "funcvalue", sig, args, x, true)
	}
	c.unsup(x, "call of %T", fun)
	return Val{}
}

// fnParamClause evaluates the contract of a function-typed parameter for concrete arguments and
// result.
func (c *FnCtx) fnParamClause(st *State, fp *FnParamSpec, args []Val, res Val) string {
	m := map[string]Val{"ret": res}
	for i, p := range fp.Params {
		m[p] = args[i]
	}
	var pkg *types.Package
	if ct := c.fnParamOwner(fp); ct != nil {
		if p := c.E.All[ct.PkgPath]; p != nil {
			pkg = p.Types
		}
	}
	env := &Env{st: st, spec: true, old: st, spkg: pkg, lookup: func(n string) (Val, bool) { v, ok := m[n]; return v, ok }}
	return c.eval(env, fp.Clause.Expr).T
}

func (c *FnCtx) fnParamOwner(fp *FnParamSpec) *Contract {
	for _, ct := range c.E.Contracts {
		if ct.FnParams[fp.Name] == fp {
			return ct
		}
	}
	return nil
}

// fnParamObligations: at a call of a function whose contract has `fnparam` clauses, the
// function passed for each such parameter must be a declared function that satisfies the clause
// for all arguments and modifies nothing.  Its body is inlined from the real source on a scratch
// copy of the state.
func (c *FnCtx) fnParamObligations(env *Env, fn *types.Func, ct *Contract, x *ast.CallExpr) {
	if len(ct.FnParams) == 0 || c.noSafety {
		return
	}
	sig := fn.Type().(*types.Signature)
	_, pn, _ := c.paramNames(fn, ct)
	for i, p := range pn {
		fp := ct.FnParams[p]
		if fp == nil || i >= len(x.Args) {
			continue
		}
		lbl := fmt.Sprintf("%s#%d:%s", shortKey(ct.Key), c.callN[ct.Key], fp.Name)
		arg := unparen(x.Args[i])
		var id *ast.Ident
		switch a := arg.(type) {
		case *ast.Ident:
			id = a
		case *ast.SelectorExpr:
			id = a.Sel
		case *ast.IndexExpr:
			if ai, ok := unparen(a.X).(*ast.Ident); ok {
				id = ai
			}
		}
		var target *types.Func
		if id != nil {
			target, _ = c.info().ObjectOf(id).(*types.Func)
		}
		if target == nil {
			c.oblige(env.st, "fnparam", lbl, "false", "argument for "+fp.Name+" is not a declared function", false, x)
			continue
		}
		fi := c.E.ByObj[target.Origin()]
		if fi == nil || fi.Decl == nil || fi.Decl.Body == nil {
			c.oblige(env.st, "fnparam", lbl, "false", "no source for "+target.Name(), false, x)
			continue
		}
		if mods := c.E.modOfFunc(c, fi); len(mods) > 0 {
			c.oblige(env.st, "fnparam", lbl+":pure", "false", target.Name()+" modifies state", false, x)
			continue
		}
		targs := c.instTargs(id)
		// parameter types of the passed function, instantiated
		tsig := target.Type().(*types.Signature)
		if it, ok := c.info().Instances[id]; ok {
			if s, ok := it.Type.(*types.Signature); ok {
				tsig = s
			}
		}
		_ = sig
		scratch := env.st.clone()
		var fargs []Val
		for j := 0; j < tsig.Params().Len(); j++ {
			fargs = append(fargs, c.freshVal("fa_"+fp.Name, c.subst(tsig.Params().At(j).Type()), scratch))
		}
		if len(fargs) != len(fp.Params) || tsig.Results().Len() != 1 {
			c.oblige(env.st, "fnparam", lbl, "false", "arity mismatch for "+fp.Name, false, x)
			continue
		}
		senv := &Env{st: scratch, old: env.old, lookup: env.lookup, spkg: env.spkg}
		res := c.inlineCall(senv, target, nil, fargs, x, targs)
		if scratch.dead() {
			continue
		}
		g := c.fnParamClause(scratch, fp, fargs, res)
		c.oblige(scratch, "fnparam", lbl, g, fp.Clause.Src, fp.Clause.Try, x)
	}
}

func (c *FnCtx) instTargs(id *ast.Ident) []types.Type {
	if id == nil {
		return nil
	}
	if inst, ok := c.info().Instances[id]; ok {
		var out []types.Type
		for i := 0; i < inst.TypeArgs.Len(); i++ {
			out = append(out, c.subst(inst.TypeArgs.At(i)))
		}
		return out
	}
	return nil
}

func (c *FnCtx) evalConversion(env *Env, target types.Type, arg ast.Expr, n ast.Node) Val {
	target = c.subst(target)
	// unsafe reinterpretation idioms:  *(*T)(unsafe.Pointer(&x))  is handled in deref of conversion
	v := c.eval(env, arg)
	return c.convert(env, v, target, n)
}

func (c *FnCtx) evalArgs(env *Env, x *ast.CallExpr, sig *types.Signature) []Val {
	var args []Val
	if len(x.Args) == 1 && sig.Params().Len() > 1 {
		v := c.eval(env, x.Args[0])
		if len(v.Tuple) > 0 {
			// f(g()) with a multi-valued g: each value is converted to its parameter type
			out := make([]Val, len(v.Tuple))
			for i, tv := range v.Tuple {
				if i < sig.Params().Len() {
					tv = c.assignConv(env, tv, sig.Params().At(i).Type())
				}
				out[i] = tv
			}
			return out
		}
		args = []Val{v}
		return args
	}
	np := sig.Params().Len()
	for i, a := range x.Args {
		v := c.eval(env, a)
		if sig.Variadic() && i >= np-1 {
			if x.Ellipsis.IsValid() {
				args = append(args, v)
				continue
			}
			// collect variadic
			elemT := sig.Params().At(np - 1).Type().(*types.Slice).Elem()
			args = append(args, c.assignConv(env, v, elemT))
			continue
		}
		if i < np {
			v = c.assignConv(env, v, sig.Params().At(i).Type())
		}
		args = append(args, v)
	}
	if sig.Variadic() && !x.Ellipsis.IsValid() {
		// pack variadic arguments into a slice
		fixed := np - 1
		st := sig.Params().At(np - 1).Type().(*types.Slice)
		var rest []Val
		if len(args) > fixed {
			rest = args[fixed:]
		}
		n := int64(len(rest))
		var sl Val
		if n == 0 {
			sl = c.zero(st)
		} else {
			a := c.allocate(env.st, fmt.Sprint(c.sizeof(st.Elem())*n))
			for i, r := range rest {
				c.storeTo(env, c.elemAddr(a, fmt.Sprint(i), st.Elem()), st.Elem(), r.T)
			}
			sl = Val{T: app("mk_Slice", a, fmt.Sprint(n), fmt.Sprint(n)), Typ: st}
		}
		args = append(args[:min(fixed, len(args))], sl)
	}
	return args
}

func (c *FnCtx) evalBuiltin(env *Env, name string, x *ast.CallExpr) Val {
	st := env.st
	switch name {
	case "len", "cap":
		v := c.eval(env, x.Args[0])
		return c.lenCap(env, name, v, x)
	case "panic":
		c.eval(env, x.Args[0])
		c.panicIf(st, "true", "panic", x)
		st.pc = "false"
		return Val{}
	case "min", "max":
		v := c.eval(env, x.Args[0])
		for _, a := range x.Args[1:] {
			w := c.eval(env, a)
			if _, isF := isFloat(v.Typ); isF {
				c.unsup(x, "float min/max")
			}
			fn := "minI"
			if name == "max" {
				fn = "maxI"
			}
			t := v.Typ
			if b, ok := t.(*types.Basic); ok && b.Info()&types.IsUntyped != 0 {
				t = w.Typ
			}
			v = Val{T: app(fn, v.T, w.T), Typ: t}
		}
		return v
	case "new":
		t := c.typeOf(x.Args[0])
		a := c.allocateObj(st, t)
		if isOpaqueStruct(t) {
			c.initOpaque(env, a, t)
		} else {
			c.storeTo(env, a, t, c.zero(t).T)
		}
		return Val{T: a, Typ: types.NewPointer(t)}
	case "make":
		t := c.typeOf(x.Args[0])
		switch u := t.Underlying().(type) {
		case *types.Slice:
			ln := c.eval(env, x.Args[1])
			cp := ln
			if len(x.Args) > 2 {
				cp = c.eval(env, x.Args[2])
			}
			c.safe(st, "makeslice", and(app("<=", "0", ln.T), app("<=", ln.T, cp.T)), x)
			a := c.allocate(st, app("*", fmt.Sprint(c.sizeof(u.Elem())), app("+", cp.T, "1")))
			// zeroed memory
			c.zeroRange(env, a, cp.T, u.Elem())
			return Val{T: app("mk_Slice", a, ln.T, cp.T), Typ: t}
		case *types.Map:
			return c.makeMap(env, t, u)
		case *types.Chan:
			a := c.allocate(st, "8")
			capT := "0"
			if len(x.Args) > 1 {
				cp := c.eval(env, x.Args[1])
				c.safe(st, "makechan", app(">=", cp.T, "0"), x)
				capT = cp.T
			}
			c.ghostSet(st, "chclosed", a, "0")
			c.ghostSet(st, "chhead", a, "0")
			c.ghostSet(st, "chtail", a, "0")
			c.ghostSet(st, "chcap", a, capT)
			return Val{T: a, Typ: t}
		}
	case "append":
		return c.evalAppend(env, x)
	case "copy":
		return c.evalCopy(env, x)
	case "delete":
		m := c.eval(env, x.Args[0])
		k := c.eval(env, x.Args[1])
		c.mapDelete(env, m, k, c.subst(m.Typ).Underlying().(*types.Map))
		return Val{}
	case "clear":
		c.unsup(x, "clear")
	case "recover":
		return c.evalRecover(env)
	case "close":
		c.chanClose(st, c.eval(env, x.Args[0]), x)
		return Val{}
	case "Add":
		// unsafe.Add(ptr, n): raw pointer arithmetic; addresses are integers
		p := c.eval(env, x.Args[0])
		n := c.eval(env, x.Args[1])
		return Val{T: app("+", p.T, n.T), Typ: p.Typ}
	case "Slice":
		// unsafe.Slice(ptr, n): the slice (ptr, n, n); Go panics when n < 0 or ptr == nil && n > 0
		p := c.eval(env, x.Args[0])
		n := c.eval(env, x.Args[1])
		if pt, ok := c.subst(p.Typ).Underlying().(*types.Pointer); ok {
			c.safe(st, "unsafeslice", and(app(">=", n.T, "0"), or(app("distinct", p.T, "0"), eq(n.T, "0"))), x)
			return Val{T: app("mk_Slice", p.T, n.T, n.T), Typ: types.NewSlice(pt.Elem())}
		}
		c.unsup(x, "unsafe.Slice of a non-pointer")
	case "print", "println":
		for _, a := range x.Args {
			c.eval(env, a)
		}
		return Val{}
	}
	// unsafe builtins
	c.unsup(x, "builtin %s", name)
	return Val{}
}

func (c *FnCtx) lenCap(env *Env, name string, v Val, n ast.Node) Val {
	t := c.subst(v.Typ)
	switch u := t.Underlying().(type) {
	case *types.Slice:
		if name == "len" {
			return Val{T: app("sl_len", v.T), Typ: types.Typ[types.Int]}
		}
		return Val{T: app("sl_cap", v.T), Typ: types.Typ[types.Int]}
	case *types.Basic:
		if u.Info()&types.IsString != 0 {
			return Val{T: app("str_len", v.T), Typ: types.Typ[types.Int]}
		}
	case *types.Array:
		return Val{T: fmt.Sprint(u.Len()), Typ: types.Typ[types.Int]}
	case *types.Map:
		// the number of keys of a map is not tracked: an arbitrary non-negative integer
		// (over-approximation: every property proved holds for whatever the real length is)
		if name == "len" && env.st != nil {
			r := c.freshVal("maplen", types.Typ[types.Int], env.st)
			c.facts = append(c.facts, app(">=", r.T, "0"))
			return r
		}
		c.unsup(n, "len of map")
	case *types.Chan:
		// len: values queued; cap: the buffer size given to make (0 for a nil channel)
		if name == "len" {
			return Val{T: ite(eq(v.T, "0"), "0", app("-", c.ghostGet(env.st, "chtail", v.T), c.ghostGet(env.st, "chhead", v.T))), Typ: types.Typ[types.Int]}
		}
		return Val{T: ite(eq(v.T, "0"), "0", c.ghostGet(env.st, "chcap", v.T)), Typ: types.Typ[types.Int]}
	}
	c.unsup(n, "%s of %s", name, t)
	return Val{}
}

// zeroRange assumes elements [0,n) at base are zero values (fresh allocation).
func (c *FnCtx) zeroRange(env *Env, base, n string, elem types.Type) {
	elem = c.subst(elem)
	sz := c.sizeof(elem)
	q := func(key, sortElem, zero string) {
		arr := c.heapGet(env.st, key, "(Array Int "+sortElem+")", nil)
		// havoc the region then constrain: arr' agrees with arr outside, zero inside
		na := c.fresh(key)
		c.declConst(na, "(Array Int "+sortElem+")")
		c.heapSet(env.st, key, na)
		c.facts = append(c.facts, fmt.Sprintf("(forall ((a!q Int)) (! (= (select %s a!q) (ite (and (<= %s a!q) (< a!q (+ %s (* %d %s)))) %s (select %s a!q))) :pattern ((select %s a!q))))",
			na, base, base, sz, n, zero, arr, na))
	}
	if _, st, ok := c.structOf(elem); ok && !isOpaqueStruct(elem) && !c.isMemStruct(elem) {
		for i := 0; i < st.NumFields(); i++ {
			f := st.Field(i)
			key := c.fieldKey(elem, f.Name())
			if c.heapSort[key] == "" {
				c.heapSort[key] = "(Array Int " + c.sortOf(f.Type()) + ")"
				c.heapType[key] = f.Type()
			}
			q(key, c.sortOf(f.Type()), c.zero(f.Type()).T)
		}
		return
	}
	key := c.memKey(elem)
	if c.heapSort[key] == "" {
		c.heapSort[key] = "(Array Int " + c.sortOf(elem) + ")"
		c.heapType[key] = elem
	}
	q(key, c.sortOf(elem), c.zero(elem).T)
}

func (c *FnCtx) evalAppend(env *Env, x *ast.CallExpr) Val {
	s := c.eval(env, x.Args[0])
	sl, ok := c.subst(s.Typ).Underlying().(*types.Slice)
	if !ok {
		c.unsup(x, "append to non-slice")
	}
	elem := sl.Elem()
	if x.Ellipsis.IsValid() {
		o := c.eval(env, x.Args[1])
		if isString(o.Typ) {
			c.unsup(x, "append string...")
		}
		return c.appendSlice(env, s, o, elem, x)
	}
	var vals []Val
	for _, a := range x.Args[1:] {
		vals = append(vals, c.assignConv(env, c.eval(env, a), elem))
	}
	return c.appendVals(env, s, vals, elem)
}

// appendVals: append(s, vals...) by the Go specification (in place when the capacity allows,
// otherwise a fresh backing array).
func (c *FnCtx) appendVals(env *Env, s Val, vals []Val, elem types.Type) Val {
	st := env.st
	n := len(vals)
	if n == 0 {
		return s
	}
	newLen := app("+", app("sl_len", s.T), fmt.Sprint(n))
	fits := app("<=", newLen, app("sl_cap", s.T))
	a, b := c.split(st, fits)
	// in place
	for i, v := range vals {
		c.storeTo(&Env{st: a}, c.elemAddr(app("sl_ptr", s.T), app("+", app("sl_len", s.T), fmt.Sprint(i)), elem), elem, v.T)
	}
	resA := app("mk_Slice", app("sl_ptr", s.T), newLen, app("sl_cap", s.T))
	// reallocate
	resB := c.reallocCopy(&Env{st: b}, s, newLen, elem)
	for i, v := range vals {
		c.storeTo(&Env{st: b}, c.elemAddr(app("sl_ptr", resB), app("+", app("sl_len", s.T), fmt.Sprint(i)), elem), elem, v.T)
	}
	j := c.join(a, b)
	st.become(j)
	return Val{T: c.nameTerm("app", ite(fits, resA, resB), "Slice"), Typ: s.Typ}
}

// reallocCopy allocates a new backing array of capacity >= newLen and copies s into it.
func (c *FnCtx) reallocCopy(env *Env, s Val, newLen string, elem types.Type) string {
	ncap := c.fresh("ncap")
	c.declConst(ncap, "Int")
	c.facts = append(c.facts, app(">=", ncap, newLen), app(">=", ncap, "1"))
	base := c.allocate(env.st, app("*", fmt.Sprint(c.sizeof(elem)), app("+", ncap, "1")))
	c.copyRange(env, base, app("sl_ptr", s.T), app("sl_len", s.T), elem)
	return app("mk_Slice", base, newLen, ncap)
}

// copyRange: memory at dst[0..n) becomes src[0..n) (element-wise), rest unchanged.
func (c *FnCtx) copyRange(env *Env, dst, src, n string, elem types.Type) {
	elem = c.subst(elem)
	sz := c.sizeof(elem)
	q := func(key, sortElem string) {
		arr := c.heapGet(env.st, key, "(Array Int "+sortElem+")", nil)
		na := c.fresh(key)
		c.declConst(na, "(Array Int "+sortElem+")")
		c.heapSet(env.st, key, na)
		// for addresses inside dst range (aligned), value comes from src + (a - dst)
		c.facts = append(c.facts, implies(env.st.pc, fmt.Sprintf("(forall ((a!q Int)) (! (= (select %s a!q) (ite (and (<= %s a!q) (< a!q (+ %s (* %d %s)))) (select %s (+ %s (- a!q %s))) (select %s a!q))) :pattern ((select %s a!q))))",
			na, dst, dst, sz, n, arr, src, dst, arr, na)))
	}
	if _, st, ok := c.structOf(elem); ok && !isOpaqueStruct(elem) && !c.isMemStruct(elem) {
		for i := 0; i < st.NumFields(); i++ {
			f := st.Field(i)
			key := c.fieldKey(elem, f.Name())
			if c.heapSort[key] == "" {
				c.heapSort[key] = "(Array Int " + c.sortOf(f.Type()) + ")"
				c.heapType[key] = f.Type()
			}
			q(key, c.sortOf(f.Type()))
		}
		return
	}
	key := c.memKey(elem)
	if c.heapSort[key] == "" {
		c.heapSort[key] = "(Array Int " + c.sortOf(elem) + ")"
		c.heapType[key] = elem
	}
	q(key, c.sortOf(elem))
}

func (c *FnCtx) appendSlice(env *Env, s, o Val, elem types.Type, n ast.Node) Val {
	st := env.st
	newLen := app("+", app("sl_len", s.T), app("sl_len", o.T))
	fits := app("<=", newLen, app("sl_cap", s.T))
	a, b := c.split(st, fits)
	c.copyRange(&Env{st: a}, c.elemAddr(app("sl_ptr", s.T), app("sl_len", s.T), elem), app("sl_ptr", o.T), app("sl_len", o.T), elem)
	resA := app("mk_Slice", app("sl_ptr", s.T), newLen, app("sl_cap", s.T))
	resB := c.reallocCopy(&Env{st: b}, s, newLen, elem)
	c.copyRange(&Env{st: b}, c.elemAddr(app("sl_ptr", resB), app("sl_len", s.T), elem), app("sl_ptr", o.T), app("sl_len", o.T), elem)
	st.become(c.join(a, b))
	return Val{T: c.nameTerm("app", ite(fits, resA, resB), "Slice"), Typ: s.Typ}
}

func (c *FnCtx) evalCopy(env *Env, x *ast.CallExpr) Val {
	d := c.eval(env, x.Args[0])
	s := c.eval(env, x.Args[1])
	sl, ok := c.subst(d.Typ).Underlying().(*types.Slice)
	if !ok || isString(s.Typ) {
		c.unsup(x, "copy form")
	}
	n := app("minI", app("sl_len", d.T), app("sl_len", s.T))
	// memmove semantics: equal to a simultaneous copy
	c.copyRange(env, app("sl_ptr", d.T), app("sl_ptr", s.T), n, sl.Elem())
	return Val{T: n, Typ: types.Typ[types.Int]}
}

// ---------------------------------------------------------------------------
// calls

func (c *FnCtx) paramNames(fn *types.Func, ct *Contract) (recv string, params []string, results []string) {
	sig := fn.Type().(*types.Signature)
	if sig.Recv() != nil {
		recv = sig.Recv().Name()
	}
	for i := 0; i < sig.Params().Len(); i++ {
		params = append(params, sig.Params().At(i).Name())
	}
	for i := 0; i < sig.Results().Len(); i++ {
		results = append(results, sig.Results().At(i).Name())
	}
	if ct != nil && len(ct.ParamNames) > 0 {
		pn := ct.ParamNames
		if sig.Recv() != nil && len(pn) == sig.Params().Len()+1 {
			recv = pn[0]
			pn = pn[1:]
		}
		if len(pn) == len(params) {
			params = append([]string(nil), pn...)
		}
	}
	if ct != nil && len(ct.ResultNames) == len(results) {
		results = append([]string(nil), ct.ResultNames...)
	}
	return
}

func (c *FnCtx) callFunc(env *Env, fn *types.Func, recv *Val, args []Val, x *ast.CallExpr, targs []types.Type) Val {
	// call-site assertions of the contract (`assert before|after Name#k: e`), top-level body only
	site := ""
	if c.C != nil && len(c.C.Asserts) > 0 && len(c.frames) == 1 && c.inSpec == 0 {
		c.siteN[fn.Name()]++
		site = fmt.Sprintf("%s#%d", fn.Name(), c.siteN[fn.Name()])
		c.siteAsserts(env.st, "before "+site, x)
	}
	v := c.callFuncInner(env, fn, recv, args, x, targs)
	c.monitorHook(env, fn, recv, x)
	if c.C != nil && len(c.C.StepInvs) > 0 && len(c.frames) == 1 && c.inSpec == 0 && !env.st.dead() {
		if k := FuncKey(fn); strings.HasPrefix(k, "sync.") || strings.HasPrefix(k, "sync/atomic.") {
			c.stepN++
			for _, cl := range c.C.StepInvs {
				g := c.eval(c.specEnvAt(env.st, x.Pos()), cl.Expr)
				c.oblige(env.st, "stepinv", fmt.Sprintf("%s@%s#%d", cl.Label, fn.Name(), c.stepN), g.T, cl.Src, cl.Try, x)
			}
		}
	}
	if site != "" {
		c.siteAsserts(env.st, "after "+site, x)
	}
	return v
}

func (c *FnCtx) siteAsserts(st *State, site string, x *ast.CallExpr) {
	for _, cl := range c.C.Asserts[site] {
		if st.dead() {
			return
		}
		g := c.eval(c.specEnvAt(st, x.Pos()), cl.Expr)
		c.oblige(st, "assert", cl.Label, g.T, cl.Src, cl.Try, x)
		c.assume(st, g.T)
	}
}

func (c *FnCtx) callFuncInner(env *Env, fn *types.Func, recv *Val, args []Val, x *ast.CallExpr, targs []types.Type) Val {
	key := FuncKey(fn)
	sig := fn.Type().(*types.Signature)
	ct := c.E.Contracts[key]
	if tps := sig.TypeParams(); tps != nil && tps.Len() > 0 && len(targs) == tps.Len() && c.E.ByObj[fn.Origin()] == nil {
		// external generic function (not inlined): resolve its type parameters while its
		// contract / opaque results are evaluated
		fr := &inlineFrame{fn: c.frame().fn, pkg: c.frame().pkg, tsubst: map[*types.TypeParam]types.Type{}, results: c.frame().results}
		for i := 0; i < tps.Len(); i++ {
			fr.tsubst[tps.At(i)] = targs[i]
		}
		c.frames = append(c.frames, fr)
		defer func() { c.frames = c.frames[:len(c.frames)-1] }()
	}
	if key == c.Fn.Key && c.inSpec == 0 {
		// direct recursion: partial correctness is not enough for "never crashes" (unbounded
		// recursion is a fatal stack overflow in Go); a measure must decrease
		if (c.noSafety || (c.C != nil && c.C.NoTerm)) && (ct == nil || ct.FnDecreases == nil) {
			// functional contract only (`nosafety`): termination of the recursion is not claimed
		} else if ct == nil || ct.FnDecreases == nil {
			c.oblige(env.st, "term", "recursion", "false", "recursive call without a decreases measure", false, x)
		} else {
			entryEnv := &Env{st: c.entry, spec: true, old: c.entry, spkg: c.Fn.Pkg.Types, lookup: func(n string) (Val, bool) { v, ok := c.paramVals[n]; return v, ok }}
			d0 := c.eval(entryEnv, ct.FnDecreases.Expr).T
			cenv := c.calleeEnv(env.st, env.st, fn, ct, recv, args, nil)
			d1 := c.eval(cenv, ct.FnDecreases.Expr).T
			c.oblige(env.st, "term", "recursion", and(app("<=", "0", d0), app("<", d1, d0)), ct.FnDecreases.Src, ct.FnDecreases.Try, x)
		}
	}
	if ct != nil && !(ct.Inline && len(ct.Requires) == 0 && len(ct.Ensures) == 0) {
		c.UsedContracts[key] = true
		if ct.Inline {
			c.checkRequires(env, fn, ct, recv, args, x)
			return c.inlineCall(env, fn, recv, args, x, targs)
		}
		return c.applyContract(env, fn, ct, recv, args, x)
	}
	if h := c.builtinLib(env, key, fn, recv, args, x); h != nil {
		return *h
	}
	if sig.Params().Len() == 0 && sig.Recv() != nil {
		switch fn.Name() {
		case "Inspect", "Error", "String", "Class", "DirectClass", "SingletonClass":
			// rendering / class lookup: assumed to have no effect on tracked state (listed in the evidence)
			c.Opaque[key+" (assumed pure)"] = true
			return c.opaqueResults(env, key, sig)
		}
	}
	fi := c.E.ByObj[fn.Origin()]
	if fi != nil && fi.Decl != nil && fi.Decl.Body != nil && c.canInline(fi) {
		return c.inlineCall(env, fn, recv, args, x, targs)
	}
	pure := fi == nil // functions without source in the repo: external, assumed not to touch tracked state
	return c.opaqueCallFn(env, fn, sig, recv, args, x, pure)
}

func (c *FnCtx) canInline(fi *FuncInfo) bool {
	if len(c.frames) >= maxInlineDepth {
		return false
	}
	for _, fr := range c.frames {
		if fr.fn != nil && fr.fn.Key == fi.Key {
			return false // recursion
		}
	}
	if fi.Key == c.Fn.Key {
		return false
	}
	ok := true
	count := 0
	ast.Inspect(fi.Decl.Body, func(n ast.Node) bool {
		switch n.(type) {
		case *ast.ForStmt, *ast.RangeStmt, *ast.GoStmt, *ast.SelectStmt, *ast.DeferStmt, *ast.FuncLit:
			ok = false
		case ast.Stmt:
			count++
		}
		return ok
	})
	return ok && count <= 60
}

func (c *FnCtx) inlineCall(env *Env, fn *types.Func, recv *Val, args []Val, x *ast.CallExpr, targs []types.Type) Val {
	fi := c.E.ByObj[fn.Origin()]
	if fi == nil || fi.Decl == nil || fi.Decl.Body == nil {
		c.unsup(x, "cannot inline %s (no body)", FuncKey(fn))
	}
	c.Inlined[fi.Key] = true
	c.scanBoxed(fi.Pkg.TypesInfo, fi.Decl.Body)
	st := env.st
	sig := fi.Sig
	fr := &inlineFrame{fn: fi, pkg: fi.Pkg, tsubst: map[*types.TypeParam]types.Type{}}
	// type arguments
	if tps := sig.TypeParams(); tps != nil && tps.Len() > 0 {
		if len(targs) != tps.Len() {
			// try to infer from the instantiated signature
			c.unsup(x, "generic call to %s without resolved type arguments", fi.Key)
		}
		for i := 0; i < tps.Len(); i++ {
			fr.tsubst[tps.At(i)] = targs[i]
		}
	}
	if rtp := sig.RecvTypeParams(); rtp != nil && rtp.Len() > 0 && recv != nil {
		// receiver type arguments from the receiver's static type
		rt := c.subst(recv.Typ)
		if p, ok := rt.(*types.Pointer); ok {
			rt = p.Elem()
		}
		if named, ok := rt.(*types.Named); ok && named.TypeArgs() != nil && named.TypeArgs().Len() == rtp.Len() {
			for i := 0; i < rtp.Len(); i++ {
				fr.tsubst[rtp.At(i)] = named.TypeArgs().At(i)
			}
		} else {
			c.unsup(x, "generic receiver of %s", fi.Key)
		}
	}
	// bind receiver and parameters
	if sig.Recv() != nil && recv != nil {
		if fi.Decl.Recv != nil && len(fi.Decl.Recv.List) > 0 && len(fi.Decl.Recv.List[0].Names) > 0 {
			obj := fi.Pkg.TypesInfo.Defs[fi.Decl.Recv.List[0].Names[0]]
			if obj != nil {
				c.declareVar(st, obj, Val{T: recv.T, Typ: obj.Type()})
			}
		}
	}
	k := 0
	for _, fld := range fi.Decl.Type.Params.List {
		if len(fld.Names) == 0 {
			k++
			continue
		}
		for _, nm := range fld.Names {
			if k < len(args) {
				if obj := fi.Pkg.TypesInfo.Defs[nm]; obj != nil {
					c.declareVar(st, obj, Val{T: args[k].T, Typ: obj.Type()})
				}
			}
			k++
		}
	}
	c.frames = append(c.frames, fr)
	if fi.Decl.Type.Results != nil {
		for _, fld := range fi.Decl.Type.Results.List {
			for _, nm := range fld.Names {
				if obj, ok := fi.Pkg.TypesInfo.Defs[nm].(*types.Var); ok {
					fr.results = append(fr.results, obj)
					st.vars[obj] = c.zero(obj.Type())
				}
			}
		}
	}
	saveLoops := c.loops
	c.loops = nil
	c.execBlock(st, fi.Decl.Body.List)
	c.loops = saveLoops
	if !st.dead() {
		// fell off the end
		var vals []Val
		for _, r := range fr.results {
			vals = append(vals, st.vars[r])
		}
		fr.returns = append(fr.returns, &retRec{st: st.clone(), vals: vals})
	}
	c.frames = c.frames[:len(c.frames)-1]
	// join the returns; the callee's own locals go out of scope first (their types may
	// mention the callee's type parameters)
	lo, hi := fi.Decl.Pos(), fi.Decl.End()
	var states []*State
	for _, r := range fr.returns {
		for o := range r.st.vars {
			if p := o.Pos(); p >= lo && p <= hi {
				delete(r.st.vars, o)
			}
		}
		states = append(states, r.st)
	}
	nres := sig.Results().Len()
	if len(states) == 0 {
		st.pc = "false"
		if nres == 0 {
			return Val{}
		}
		return c.deadResult(sig)
	}
	j := c.join(states...)
	res := make([]Val, nres)
	for i := 0; i < nres; i++ {
		rt := c.substIn(fr, sig.Results().At(i).Type())
		term := ""
		for k := len(fr.returns) - 1; k >= 0; k-- {
			r := fr.returns[k]
			if r.st.dead() {
				continue
			}
			if term == "" {
				term = r.vals[i].T
			} else {
				term = ite(r.st.pc, r.vals[i].T, term)
			}
		}
		res[i] = Val{T: c.nameTerm("ret", term, c.sortOfIn(fr, rt)), Typ: rt}
	}
	st.become(j)
	switch nres {
	case 0:
		return Val{}
	case 1:
		return res[0]
	}
	return Val{Tuple: res}
}

func (c *FnCtx) substIn(fr *inlineFrame, t types.Type) types.Type {
	c.frames = append(c.frames, fr)
	defer func() { c.frames = c.frames[:len(c.frames)-1] }()
	return c.subst(t)
}

func (c *FnCtx) sortOfIn(fr *inlineFrame, t types.Type) string {
	c.frames = append(c.frames, fr)
	defer func() { c.frames = c.frames[:len(c.frames)-1] }()
	return c.sortOf(t)
}

func (c *FnCtx) deadResult(sig *types.Signature) Val {
	n := sig.Results().Len()
	res := make([]Val, n)
	for i := 0; i < n; i++ {
		res[i] = c.zero(sig.Results().At(i).Type())
	}
	if n == 1 {
		return res[0]
	}
	return Val{Tuple: res}
}

// calleeEnv builds the spec environment for a callee's contract at a call site.
func (c *FnCtx) calleeEnv(st, old *State, fn *types.Func, ct *Contract, recv *Val, args []Val, results []Val) *Env {
	rn, pn, resn := c.paramNames(fn, ct)
	m := map[string]Val{}
	sig := fn.Type().(*types.Signature)
	if recv != nil && rn != "" && rn != "_" {
		m[rn] = Val{T: recv.T, Typ: sig.Recv().Type()}
	}
	for i, p := range pn {
		if i < len(args) && p != "" && p != "_" {
			pt := sig.Params().At(i).Type()
			if _, isTP := types.Unalias(pt).(*types.TypeParam); isTP && args[i].Typ != nil {
				pt = args[i].Typ
			}
			m[p] = Val{T: args[i].T, Typ: pt}
		}
	}
	for i, r := range results {
		if i < len(resn) && resn[i] != "" && resn[i] != "_" {
			m[resn[i]] = r
		}
		m[fmt.Sprintf("ret%d", i)] = r
	}
	if len(results) == 1 {
		m["ret"] = results[0]
	}
	var pkg *types.Package
	if fn.Pkg() != nil {
		pkg = fn.Pkg()
	}
	if ct != nil && ct.PkgPath != "" && ct.File != "" && !strings.HasSuffix(ct.File, ".spec") {
		if p := c.E.All[ct.PkgPath]; p != nil {
			pkg = p.Types
		}
	}
	return &Env{st: st, spec: true, old: old, lookup: func(n string) (Val, bool) { v, ok := m[n]; return v, ok }, spkg: pkg}
}

func (c *FnCtx) checkRequires(env *Env, fn *types.Func, ct *Contract, recv *Val, args []Val, x *ast.CallExpr) {
	c.callN[ct.Key]++
	cenv := c.calleeEnv(env.st, env.st, fn, ct, recv, args, nil)
	for _, rq := range ct.Requires {
		g := c.eval(cenv, rq.Expr)
		lbl := fmt.Sprintf("%s#%d:%s", shortKey(ct.Key), c.callN[ct.Key], rq.Label)
		if len(c.frames) > 1 {
			lbl += "@" + shortKey(c.frame().fn.Key)
		}
		if !c.noSafety || (c.C != nil && c.C.CheckPre) {
			// `nosafety` alone also skips (and merely assumes) the preconditions of callees;
			// `checkpre` keeps them as obligations
			c.oblige(env.st, "pre", lbl, g.T, rq.Src, rq.Try, x)
		}
		c.assume(env.st, g.T)
	}
}

func (c *FnCtx) applyContract(env *Env, fn *types.Func, ct *Contract, recv *Val, args []Val, x *ast.CallExpr) Val {
	st := env.st
	sig := fn.Type().(*types.Signature)
	c.checkRequires(env, fn, ct, recv, args, x)
	c.fnParamObligations(env, fn, ct, x)
	old := st.clone()
	// frame
	if ct.AssignsGiven {
		cenv := c.calleeEnv(st, old, fn, ct, recv, args, nil)
		for _, a := range ct.Assigns {
			c.havocLocation(cenv, a.Expr, x)
		}
	} else {
		fi := c.E.ByObj[fn.Origin()]
		if fi != nil && fi.Decl != nil {
			mods := c.E.modOfFunc(c, fi)
			if os.Getenv("ELKVC_MODS") != "" {
				fmt.Fprintf(os.Stderr, "mods of %s: %v\n", fi.Key, mods)
			}
			c.havocMods(st, mods)
		}
	}
	// results
	nres := sig.Results().Len()
	res := make([]Val, nres)
	for i := 0; i < nres; i++ {
		if ct.Pure {
			// `pure`: the results are a function of the arguments and of the heap cells named
			// in `reads` (evaluated before the call); two calls with equal inputs agree
			res[i] = c.pureResult(old, fn, ct, recv, args, i)
			continue
		}
		res[i] = c.freshVal("r_"+fn.Name(), sig.Results().At(i).Type(), st)
	}
	for _, a := range ct.Assigns {
		if id, ok := unparen(a.Expr).(*ast.Ident); ok && id.Name == "fresh" {
			// pointer results are fresh allocations: advance the allocation frontier past them
			for _, r := range res {
				if _, isP := c.subst(r.Typ).Underlying().(*types.Pointer); isP {
					na := c.fresh("alloc")
					c.declConst(na, "Int")
					c.facts = append(c.facts, implies(app(">=", r.T, old.alloc), app(">", na, r.T)), app(">=", na, st.alloc))
					if pt, ok := c.subst(r.Typ).Underlying().(*types.Pointer); ok {
						if _, isS := c.subst(pt.Elem()).Underlying().(*types.Struct); isS && c.objTy {
							c.useObjTy()
							c.facts = append(c.facts, implies(app(">=", r.T, old.alloc), eq(app("objty", r.T), c.typeTag(pt.Elem()))))
						}
					}
					st.alloc = na
				}
			}
		}
	}
	cenv := c.calleeEnv(st, old, fn, ct, recv, args, res)
	for _, en := range ct.Ensures {
		if en.Try {
			continue // unproved clauses are never assumed
		}
		if en.GhostDef {
			c.Trusted["ghost definition at "+shortKey(FuncKey(fn))+": "+en.Src] = true
		}
		if strings.Contains(en.Src, "atlock(") {
			// speaks about the state the callee's critical section found, which the caller
			// has no name for: not assumed at call sites (weaker, hence sound)
			continue
		}
		g := c.eval(cenv, en.Expr)
		c.assume(st, g.T)
	}
	switch nres {
	case 0:
		return Val{}
	case 1:
		return res[0]
	}
	return Val{Tuple: res}
}

// havocLocation: `assigns` target forms: x.f (one field of one object),
// T.f (a field of all objects: `all(T).f`), bigval(p), mem(s) (elements of slice s), *
func (c *FnCtx) havocLocation(env *Env, e ast.Expr, n ast.Node) {
	st := env.st
	e = unparen(e)
	switch x := e.(type) {
	case *ast.Ident:
		if x.Name == "everything" {
			c.havocAll(st)
			return
		}
		if x.Name == "fresh" {
			return
		}
	case *ast.StarExpr:
		c.havocAll(st)
		return
	case *ast.CallExpr:
		if id, ok := x.Fun.(*ast.Ident); ok {
			switch id.Name {
			case "bigval", "ghost":
				name := id.Name
				var p Val
				if name == "ghost" {
					name = x.Args[0].(*ast.Ident).Name
					p = c.eval(env, x.Args[1])
				} else {
					p = c.eval(env, x.Args[0])
				}
				f := c.fresh("gv")
				c.declConst(f, "Int")
				c.ghostSet(st, name, p.T, f)
				return
			case "ghostall":
				name := x.Args[0].(*ast.Ident).Name
				c.havocKey(st, "GH_"+name, types.Typ[types.UntypedInt])
				c.heapSort["GH_"+name] = "(Array Int Int)"
				return
			case "elems":
				s := c.eval(env, x.Args[0])
				elem, ok := c.sliceElemType(s.Typ)
				if !ok {
					c.unsup(n, "elems of non-slice")
				}
				c.havocElems(st, s, elem)
				return
			case "all":
				// all(T).f handled below via selector
			case "fresh":
				return
			}
		}
	case *ast.SelectorExpr:
		// all(T).f ?
		if call, ok := unparen(x.X).(*ast.CallExpr); ok {
			if id, ok := call.Fun.(*ast.Ident); ok && id.Name == "all" {
				t := c.specType(env, call.Args[0])
				_, stt, ok := c.structOf(t)
				if !ok {
					c.unsup(n, "all() of non-struct")
				}
				for i := 0; i < stt.NumFields(); i++ {
					if stt.Field(i).Name() == x.Sel.Name {
						c.havocKey(st, c.fieldKey(t, x.Sel.Name), stt.Field(i).Type())
						return
					}
				}
				c.unsup(n, "no field %s", x.Sel.Name)
			}
		}
		base := c.eval(env, x.X)
		pt, ok := c.subst(base.Typ).Underlying().(*types.Pointer)
		if !ok {
			c.unsup(n, "assigns target must go through a pointer")
		}
		_, stt, ok := c.structOf(pt.Elem())
		if !ok {
			c.unsup(n, "assigns target struct")
		}
		for i := 0; i < stt.NumFields(); i++ {
			f := stt.Field(i)
			if f.Name() == x.Sel.Name {
				nv := c.freshVal("hv_"+f.Name(), f.Type(), st)
				c.writeField(st, base.T, pt.Elem(), f, nv.T)
				return
			}
		}
	}
	c.unsup(n, "assigns target")
}

func (c *FnCtx) havocElems(st *State, s Val, elem types.Type) {
	elem = c.subst(elem)
	sz := c.sizeof(elem)
	q := func(key, sortElem string, t types.Type) {
		arr := c.heapGet(st, key, "(Array Int "+sortElem+")", t)
		na := c.fresh(key)
		c.declConst(na, "(Array Int "+sortElem+")")
		c.heapSet(st, key, na)
		c.facts = append(c.facts, implies(st.pc, fmt.Sprintf("(forall ((a!q Int)) (! (=> (not (and (<= (sl_ptr %s) a!q) (< a!q (+ (sl_ptr %s) (* %d (sl_cap %s)))))) (= (select %s a!q) (select %s a!q))) :pattern ((select %s a!q))))",
			s.T, s.T, sz, s.T, na, arr, na)))
	}
	if _, stt, ok := c.structOf(elem); ok && !isOpaqueStruct(elem) && !c.isMemStruct(elem) {
		for i := 0; i < stt.NumFields(); i++ {
			f := stt.Field(i)
			q(c.fieldKey(elem, f.Name()), c.sortOf(f.Type()), f.Type())
		}
		return
	}
	q(c.memKey(elem), c.sortOf(elem), elem)
}

func (c *FnCtx) dynamicCall(env *Env, m *types.Func, recv Val, args []Val, x *ast.CallExpr) Val {
	sig := m.Type().(*types.Signature)
	key := FuncKey(m)
	if ct := c.E.Contracts[key]; ct != nil {
		c.UsedContracts[key] = true
		return c.applyContract(env, m, ct, &recv, args, x)
	}
	if sig.Params().Len() == 0 {
		switch m.Name() {
		case "Inspect", "Error", "String", "Class", "DirectClass", "SingletonClass":
			c.Opaque[key+" (assumed pure)"] = true
			return c.opaqueResults(env, key, sig)
		}
	}
	return c.opaqueCallFn(env, m, sig, &recv, args, x, false)
}

func (c *FnCtx) opaqueCallFn(env *Env, fn *types.Func, sig *types.Signature, recv *Val, args []Val, x *ast.CallExpr, external bool) Val {
	key := FuncKey(fn)
	c.Opaque[key] = true
	if !external {
		fi := c.E.ByObj[fn.Origin()]
		var mods map[string]types.Type
		if fi != nil && fi.Decl != nil {
			mods = c.E.modOfFunc(c, fi)
		} else {
			// interface method: union over implementations
			mods = c.E.modOfMethodName(c, fn)
		}
		if os.Getenv("ELKVC_MODS") != "" {
			_, all := mods["*"]
			fmt.Fprintf(os.Stderr, "mods of opaque %s: %d keys, everything=%v\n", key, len(mods), all)
		}
		c.havocMods(env.st, mods)
	}
	return c.opaqueResults(env, key, sig)
}

func (c *FnCtx) opaqueCall(env *Env, what string, sig *types.Signature, args []Val, x *ast.CallExpr, unknownEffects bool) Val {
	c.Opaque[what] = true
	if unknownEffects {
		c.havocAll(env.st)
	}
	return c.opaqueResults(env, what, sig)
}

func (c *FnCtx) opaqueResults(env *Env, key string, sig *types.Signature) Val {
	n := sig.Results().Len()
	res := make([]Val, n)
	for i := 0; i < n; i++ {
		res[i] = c.freshVal("o_"+shortKey(key), sig.Results().At(i).Type(), env.st)
	}
	switch n {
	case 0:
		return Val{}
	case 1:
		return res[0]
	}
	return Val{Tuple: res}
}

// builtinLib: library functions with built-in semantics (no contract file needed).
func (c *FnCtx) builtinLib(env *Env, key string, fn *types.Func, recv *Val, args []Val, x *ast.CallExpr) *Val {
	switch key {
	case "unsafe.Add":
	case "encoding/binary.(bigEndian).PutUint16", "encoding/binary.(bigEndian).PutUint32",
		"encoding/binary.(bigEndian).Uint16", "encoding/binary.(bigEndian).Uint32":
		// documented semantics: b[0..n) holds v most significant byte first; panics (bounds
		// check) when len(b) < n  (trusted library model, listed in the evidence)
		if c.bv {
			return nil
		}
		nb := 2
		if strings.HasSuffix(key, "32") {
			nb = 4
		}
		u8 := types.Typ[types.Uint8]
		b := args[0]
		c.safe(env.st, "index", app(">=", app("sl_len", b.T), fmt.Sprint(nb)), x)
		if strings.Contains(key, ".Put") {
			if len(args) != 2 {
				return nil
			}
			c.Trusted[key+" (modelled as stores of the big-endian bytes)"] = true
			for i := 0; i < nb; i++ {
				d := "1"
				for k := 0; k < nb-1-i; k++ {
					d = app("*", d, "256")
				}
				c.storeTo(env, c.elemAddr(app("sl_ptr", b.T), fmt.Sprint(i), u8), u8, app("mod", app("div", args[1].T, d), "256"))
			}
			return &Val{}
		}
		c.Trusted[key+" (modelled as the big-endian value of the bytes)"] = true
		t := "0"
		for i := 0; i < nb; i++ {
			t = app("+", app("*", t, "256"), c.loadFrom(env, c.elemAddr(app("sl_ptr", b.T), fmt.Sprint(i), u8), u8).T)
		}
		rt := types.Typ[types.Uint16]
		if nb == 4 {
			rt = types.Typ[types.Uint32]
		}
		return &Val{T: t, Typ: rt}
	case "encoding/binary.(bigEndian).AppendUint16", "encoding/binary.(bigEndian).AppendUint32":
		// documented semantics: append(b, byte(v>>8), byte(v)) resp. the four bytes of v, most
		// significant first (trusted library model, listed in the evidence)
		if len(args) != 2 {
			return nil
		}
		c.Trusted[key+" (modelled as append of the big-endian bytes)"] = true
		u8 := types.Typ[types.Uint8]
		nb := 2
		if strings.HasSuffix(key, "32") {
			nb = 4
		}
		var vals []Val
		for i := nb - 1; i >= 0; i-- {
			d := "1"
			for k := 0; k < i; k++ {
				d = app("*", d, "256")
			}
			vals = append(vals, Val{T: app("mod", app("div", args[1].T, d), "256"), Typ: u8})
		}
		if c.bv {
			return nil
		}
		v := c.appendVals(env, args[0], vals, u8)
		return &v
	}
	return nil
}

// ---------------------------------------------------------------------------
// mod-set inference

// modOfNode: heap keys possibly written by the statements under n.
func (e *Engine) modOfNode(c *FnCtx, n ast.Node) map[string]types.Type {
	out := map[string]types.Type{}
	e.modWalk(c, c.pkg().TypesInfo, n, out, map[*types.Func]bool{})
	return out
}

func (e *Engine) modOfFunc(c *FnCtx, fi *FuncInfo) map[string]types.Type {
	out := map[string]types.Type{}
	if e.modMemoGet(c, fi, out) {
		return out
	}
	seen := map[*types.Func]bool{}
	e.modFunc(c, fi, out, seen)
	e.modMemoPut(c, fi, out)
	return out
}

// The complete frame of a non-generic function does not depend on who asks: it is computed
// once.  (A nested walk cut short by the cycle guard is never stored.)
type modMemoEntry struct {
	keys  map[string]types.Type
	sorts map[string]string
}

func modMemoable(fi *FuncInfo) bool {
	// off by default: replaying a stored frame in another function's context does not replay
	// the sort declarations (map key sorts, struct sorts) the walk would have made there
	if os.Getenv("ELKVC_MODMEMO") == "" {
		return false
	}
	if fi == nil || fi.Obj == nil || fi.Sig == nil {
		return false
	}
	if tp := fi.Sig.TypeParams(); tp != nil && tp.Len() > 0 {
		return false
	}
	if tp := fi.Sig.RecvTypeParams(); tp != nil && tp.Len() > 0 {
		return false
	}
	return true
}

func (e *Engine) modMemoGet(c *FnCtx, fi *FuncInfo, out map[string]types.Type) bool {
	if !modMemoable(fi) || e.modMemo == nil {
		return false
	}
	m := e.modMemo[fi.Obj]
	if m == nil {
		return false
	}
	for k, v := range m.keys {
		out[k] = v
		if s, ok := m.sorts[k]; ok {
			if _, have := c.heapSort[k]; !have {
				c.heapSort[k] = s
				if v != nil {
					c.heapType[k] = v
				}
			}
		}
	}
	return true
}

func (e *Engine) modMemoPut(c *FnCtx, fi *FuncInfo, out map[string]types.Type) {
	if !modMemoable(fi) {
		return
	}
	if e.modMemo == nil {
		e.modMemo = map[*types.Func]*modMemoEntry{}
	}
	m := &modMemoEntry{keys: map[string]types.Type{}, sorts: map[string]string{}}
	for k, v := range out {
		m.keys[k] = v
		if s, ok := c.heapSort[k]; ok {
			m.sorts[k] = s
		}
	}
	e.modMemo[fi.Obj] = m
}

func (e *Engine) modFunc(c *FnCtx, fi *FuncInfo, out map[string]types.Type, seen map[*types.Func]bool) {
	callTargs := e.pendingTargs // the instantiation of the call site this walk comes from, if any
	e.pendingTargs = nil
	recvTargs := e.pendingRecvTargs // type arguments of the receiver's generic type at that call site
	e.pendingRecvTargs = nil
	if fi.Obj != nil {
		if seen[fi.Obj] {
			return
		}
		seen[fi.Obj] = true
		if e.modMemoGet(c, fi, out) {
			return
		}
	}
	if ct := e.Contracts[fi.Key]; ct != nil {
		for _, g := range ct.GhostMods {
			out["GH_"+g] = types.Typ[types.UntypedInt]
			c.heapSort["GH_"+g] = "(Array Int Int)"
		}
	}
	if ct := e.Contracts[fi.Key]; ct != nil && ct.AssignsGiven {
		for _, a := range ct.Assigns {
			e.modOfAssignsClause(c, fi, a.Expr, out)
		}
		return
	}
	if fi.Decl == nil || fi.Decl.Body == nil {
		return
	}
	// generic functions (not methods of generic types): the union over the instantiations the
	// repository uses, each walked with its type arguments bound
	if tps := fi.Sig.TypeParams(); tps != nil && tps.Len() > 0 && fi.Obj != nil && (fi.Sig.RecvTypeParams() == nil || fi.Sig.RecvTypeParams().Len() == 0) {
		insts := e.instancesOf(fi.Obj)
		if callTargs != nil {
			// called from a site whose instantiation the type checker recorded: that one only
			insts = [][]types.Type{callTargs}
		}
		if len(insts) > 0 && len(insts) <= 64 {
			for _, ts := range insts {
				if len(ts) != tps.Len() {
					continue
				}
				unresolved := false
				for _, t := range ts {
					if hasTypeParam(c.subst(t)) {
						unresolved = true
					}
				}
				if unresolved && len(insts) > 1 {
					// an instantiation written inside another generic function, in terms of that
					// function's parameters: it only happens under an instantiation of the outer
					// function, which binds them when this walk comes from there
					continue
				}
				fr := &inlineFrame{fn: fi, pkg: fi.Pkg, tsubst: map[*types.TypeParam]types.Type{}}
				for i := 0; i < tps.Len(); i++ {
					fr.tsubst[tps.At(i)] = ts[i]
				}
				c.frames = append(c.frames, fr)
				func() {
					defer func() {
						c.frames = c.frames[:len(c.frames)-1]
						if r := recover(); r != nil {
							starWhy(out, 17)
						}
					}()
					e.modWalk(c, fi.Pkg.TypesInfo, fi.Decl.Body, out, seen)
				}()
			}
			return
		}
	}
	// a method of a generic type called on a receiver whose type arguments are known
	if rtps := fi.Sig.RecvTypeParams(); rtps != nil && rtps.Len() > 0 && len(recvTargs) == rtps.Len() && (fi.Sig.TypeParams() == nil || fi.Sig.TypeParams().Len() == 0) {
		resolved := true
		for _, t := range recvTargs {
			if hasTypeParam(c.subst(t)) {
				resolved = false
			}
		}
		if resolved {
			fr := &inlineFrame{fn: fi, pkg: fi.Pkg, tsubst: map[*types.TypeParam]types.Type{}}
			for i := 0; i < rtps.Len(); i++ {
				fr.tsubst[rtps.At(i)] = recvTargs[i]
			}
			c.frames = append(c.frames, fr)
			func() {
				defer func() {
					c.frames = c.frames[:len(c.frames)-1]
					if r := recover(); r != nil {
						starWhy(out, 18)
					}
				}()
				e.modWalk(c, fi.Pkg.TypesInfo, fi.Decl.Body, out, seen)
			}()
			return
		}
	}
	// otherwise: keys depend on instantiation; be conservative
	if fi.Sig.TypeParams() != nil && fi.Sig.TypeParams().Len() > 0 || fi.Sig.RecvTypeParams() != nil && fi.Sig.RecvTypeParams().Len() > 0 {
		hasWrite := false
		ast.Inspect(fi.Decl.Body, func(n ast.Node) bool {
			switch n.(type) {
			case *ast.AssignStmt, *ast.IncDecStmt, *ast.CallExpr:
				hasWrite = true
			}
			return !hasWrite
		})
		if hasWrite {
			tmp := map[string]types.Type{}
			func() {
				defer func() {
					if r := recover(); r != nil {
						tmp["*"] = nil
					}
				}()
				e.modWalk(c, fi.Pkg.TypesInfo, fi.Decl.Body, tmp, seen)
			}()
			for k, v := range tmp {
				if strings.Contains(k, "$T") {
					starWhy(out, 1)
				} else {
					out[k] = v
				}
			}
		}
		return
	}
	e.modWalk(c, fi.Pkg.TypesInfo, fi.Decl.Body, out, seen)
}

func (e *Engine) modOfAssignsClause(c *FnCtx, fi *FuncInfo, a ast.Expr, out map[string]types.Type) {
	a = unparen(a)
	switch x := a.(type) {
	case *ast.StarExpr:
		starWhy(out, 2)
		return
	case *ast.Ident:
		if x.Name == "everything" {
			starWhy(out, 3)
			return
		}
		if x.Name == "fresh" || x.Name == "nothing" {
			// only newly allocated objects are written
			return
		}
	case *ast.CallExpr:
		if id, ok := x.Fun.(*ast.Ident); ok {
			switch id.Name {
			case "bigval":
				out["GH_bigval"] = types.Typ[types.UntypedInt]
				return
			case "ghost", "ghostall":
				out["GH_"+x.Args[0].(*ast.Ident).Name] = types.Typ[types.UntypedInt]
				return
			case "fresh":
				return
			}
		}
	}
	// p.f with p the receiver or a parameter (a pointer to a struct): field f of that struct type
	if se, ok := a.(*ast.SelectorExpr); ok && fi != nil && fi.Sig != nil {
		if id, ok := unparen(se.X).(*ast.Ident); ok {
			var pt types.Type
			if r := fi.Sig.Recv(); r != nil && r.Name() == id.Name {
				pt = r.Type()
			}
			for i := 0; pt == nil && i < fi.Sig.Params().Len(); i++ {
				if fi.Sig.Params().At(i).Name() == id.Name {
					pt = fi.Sig.Params().At(i).Type()
				}
			}
			if pt != nil {
				if p, ok := c.subst(pt).Underlying().(*types.Pointer); ok {
					if _, stt, ok := c.structOf(p.Elem()); ok {
						for i := 0; i < stt.NumFields(); i++ {
							if stt.Field(i).Name() == se.Sel.Name {
								if e.addrTaken[stt.Field(i).Origin()] {
									// the field lives in flat memory (its address is taken somewhere)
									e.addElemKeys(c, stt.Field(i).Type(), out)
								} else {
									out[c.fieldKey(p.Elem(), se.Sel.Name)] = stt.Field(i).Type()
								}
								return
							}
						}
					}
				}
			}
		}
	}
	// all(T).f: field f of every object of struct type T
	if se, ok := a.(*ast.SelectorExpr); ok && fi != nil && fi.Pkg != nil {
		if call, ok := unparen(se.X).(*ast.CallExpr); ok && len(call.Args) == 1 {
			if id, ok := call.Fun.(*ast.Ident); ok && id.Name == "all" {
				done := false
				func() {
					defer func() { recover() }()
					t := c.specType(&Env{spec: true, spkg: fi.Pkg.Types}, call.Args[0])
					if _, stt, ok := c.structOf(t); ok {
						for i := 0; i < stt.NumFields(); i++ {
							if stt.Field(i).Name() == se.Sel.Name {
								if e.addrTaken[stt.Field(i).Origin()] {
									e.addElemKeys(c, stt.Field(i).Type(), out)
								} else {
									out[c.fieldKey(t, se.Sel.Name)] = stt.Field(i).Type()
								}
								done = true
							}
						}
					}
				}()
				if done {
					return
				}
			}
		}
	}
	// anything else: resolve lazily by evaluating in a scratch env is heavy; be conservative
	starWhy(out, 4)
}

func (e *Engine) modWalk(c *FnCtx, info *types.Info, n ast.Node, out map[string]types.Type, seen map[*types.Func]bool) {
	addLhs := func(l ast.Expr) {
		l = unparen(l)
		switch y := l.(type) {
		case *ast.Ident:
			if v, ok := info.ObjectOf(y).(*types.Var); ok && v.Pkg() != nil && v.Parent() == v.Pkg().Scope() {
				out["G_"+sanitize(v.Pkg().Path()+"."+v.Name())] = v.Type()
			}
		case *ast.SelectorExpr:
			sel, ok := info.Selections[y]
			if !ok {
				if v, ok := info.Uses[y.Sel].(*types.Var); ok && !v.IsField() {
					out["G_"+sanitize(v.Pkg().Path()+"."+v.Name())] = v.Type()
				}
				return
			}
			// find the innermost pointer step
			t := info.TypeOf(y.X)
			if t == nil {
				starWhy(out, 5)
				return
			}
			cur := t
			wrote := false
			var lastPtrStruct types.Type
			var lastField *types.Var
			for _, i := range sel.Index() {
				cu := c.subst(cur)
				if pt, ok := cu.Underlying().(*types.Pointer); ok {
					stt, ok := c.subst(pt.Elem()).Underlying().(*types.Struct)
					if !ok {
						starWhy(out, 6)
						return
					}
					lastPtrStruct = pt.Elem()
					lastField = stt.Field(i)
					cur = lastField.Type()
					wrote = true
				} else if stt, ok := cu.Underlying().(*types.Struct); ok {
					cur = stt.Field(i).Type()
				} else {
					starWhy(out, 7)
					return
				}
			}
			if wrote {
				out[c.fieldKey(lastPtrStruct, lastField.Name())] = lastField.Type()
			} else {
				// struct value held in a variable/slice element/...: recurse on the base
				e.modLhsBase(c, info, y.X, out)
			}
		case *ast.IndexExpr:
			bt := info.TypeOf(y.X)
			if bt == nil {
				starWhy(out, 8)
				return
			}
			switch u := c.subst(bt).Underlying().(type) {
			case *types.Slice:
				e.addElemKeys(c, u.Elem(), out)
			case *types.Map:
				dk, _, vk, _ := c.mapKeys(u)
				out[dk] = nil
				out[vk] = nil
				c.heapSort[dk], c.heapSort[vk] = func() (string, string) { _, ds, _, vs := c.mapKeys(u); return ds, vs }()
			case *types.Array:
				e.modLhsBase(c, info, y.X, out)
			default:
				starWhy(out, 9)
			}
		case *ast.StarExpr:
			pt := info.TypeOf(y.X)
			if pt == nil {
				starWhy(out, 10)
				return
			}
			if p, ok := c.subst(pt).Underlying().(*types.Pointer); ok {
				e.addElemKeys(c, p.Elem(), out)
			} else {
				starWhy(out, 11)
			}
		}
	}
	ast.Inspect(n, func(m ast.Node) bool {
		switch s := m.(type) {
		case *ast.AssignStmt:
			for _, l := range s.Lhs {
				addLhs(l)
			}
		case *ast.IncDecStmt:
			addLhs(s.X)
		case *ast.RangeStmt:
			if s.Tok == token.ASSIGN {
				if s.Key != nil {
					addLhs(s.Key)
				}
				if s.Value != nil {
					addLhs(s.Value)
				}
			}
		case *ast.FuncLit:
			return false
		case *ast.GoStmt:
			starWhy(out, 12)
		case *ast.CallExpr:
			e.modCall(c, info, s, out, seen)
		}
		return true
	})
}

func (e *Engine) modLhsBase(c *FnCtx, info *types.Info, base ast.Expr, out map[string]types.Type) {
	base = unparen(base)
	switch b := base.(type) {
	case *ast.Ident:
		if v, ok := info.ObjectOf(b).(*types.Var); ok && v.Pkg() != nil && v.Parent() == v.Pkg().Scope() {
			out["G_"+sanitize(v.Pkg().Path()+"."+v.Name())] = v.Type()
		}
	case *ast.SelectorExpr, *ast.IndexExpr, *ast.StarExpr:
		// writing part of a value stored at this location = writing the location
		tmp := &ast.AssignStmt{Lhs: []ast.Expr{base}, Tok: token.ASSIGN}
		e.modWalk(c, info, tmp, out, map[*types.Func]bool{})
	}
}

func (e *Engine) addElemKeys(c *FnCtx, elem types.Type, out map[string]types.Type) {
	elem = c.subst(elem)
	if _, ok := elem.(*types.TypeParam); ok {
		starWhy(out, 13)
		return
	}
	if _, stt, ok := c.structOf(elem); ok && !isOpaqueStruct(elem) && !c.isMemStruct(elem) {
		for i := 0; i < stt.NumFields(); i++ {
			out[c.fieldKey(elem, stt.Field(i).Name())] = stt.Field(i).Type()
		}
		return
	}
	if isOpaqueStruct(elem) {
		out["GH_bigval"] = types.Typ[types.UntypedInt]
		return
	}
	out[c.memKey(elem)] = elem
}

func (e *Engine) modCall(c *FnCtx, info *types.Info, call *ast.CallExpr, out map[string]types.Type, seen map[*types.Func]bool) {
	fun := unparen(call.Fun)
	if tv, ok := info.Types[fun]; ok && tv.IsType() {
		return
	}
	switch f := fun.(type) {
	case *ast.IndexExpr:
		fun = unparen(f.X)
	case *ast.IndexListExpr:
		fun = unparen(f.X)
	}
	var callee *types.Func
	var instIdent *ast.Ident
	dynamic := false
	switch f := fun.(type) {
	case *ast.Ident:
		instIdent = f
		switch o := info.ObjectOf(f).(type) {
		case *types.Builtin:
			switch o.Name() {
			case "append", "copy":
				if len(call.Args) > 0 {
					if t := info.TypeOf(call.Args[0]); t != nil {
						if sl, ok := c.subst(t).Underlying().(*types.Slice); ok {
							e.addElemKeys(c, sl.Elem(), out)
						}
					}
				}
			case "delete":
				if t := info.TypeOf(call.Args[0]); t != nil {
					if mt, ok := c.subst(t).Underlying().(*types.Map); ok {
						dk, ds, _, _ := c.mapKeys(mt)
						out[dk] = nil
						c.heapSort[dk] = ds
					}
				}
			case "clear":
				starWhy(out, 14)
			}
			return
		case *types.Func:
			callee = o
		default:
			dynamic = true
		}
	case *ast.SelectorExpr:
		if sel, ok := info.Selections[f]; ok {
			if sel.Kind() == types.MethodVal {
				callee = sel.Obj().(*types.Func)
				if rt := sel.Recv(); rt != nil {
					if ri, isI := c.subst(rt).Underlying().(*types.Interface); isI {
						e.chaIface = ri // the static interface of the receiver at this call
						for k, v := range e.modOfMethodNameSeen(c, callee, seen) {
							out[k] = v
						}
						return
					}
				}
			} else {
				dynamic = true
			}
		} else if o, ok := info.Uses[f.Sel].(*types.Func); ok {
			callee = o
			instIdent = f.Sel
		} else if _, ok := info.Uses[f.Sel].(*types.Builtin); ok {
			return // unsafe.Add and friends: no effect
		} else {
			dynamic = true
		}
	default:
		dynamic = true
	}
	if dynamic {
		if os.Getenv("ELKVC_NODYN") == "" {
			if sig, ok := info.TypeOf(fun).(*types.Signature); ok && sig != nil {
				if e.modDynamic(c, sig, out, seen) {
					return
				}
			} else if t := info.TypeOf(fun); t != nil {
				if sig, ok := t.Underlying().(*types.Signature); ok {
					if e.modDynamic(c, sig, out, seen) {
						return
					}
				}
			}
		}
		if os.Getenv("ELKVC_MODS_WHY") != "" {
			fmt.Fprintf(os.Stderr, "mods * : dynamic call at %s\n", e.Fset.Position(call.Pos()))
		}
		starWhy(out, 15)
		return
	}
	if callee == nil {
		return
	}
	key := FuncKey(callee)
	if ct := e.Contracts[key]; ct != nil {
		for _, g := range ct.GhostMods {
			out["GH_"+g] = types.Typ[types.UntypedInt]
			c.heapSort["GH_"+g] = "(Array Int Int)"
		}
	}
	if ct := e.Contracts[key]; ct != nil && ct.AssignsGiven {
		fi := e.ByObj[callee.Origin()]
		for _, a := range ct.Assigns {
			e.modOfAssignsClause(c, fi, a.Expr, out)
		}
		return
	}
	fi := e.ByObj[callee.Origin()]
	e.pendingTargs = nil
	e.pendingRecvTargs = nil
	if se, ok := fun.(*ast.SelectorExpr); ok && fi != nil {
		if sel, ok := info.Selections[se]; ok && sel.Kind() == types.MethodVal && sel.Recv() != nil {
			rt := sel.Recv()
			if p, ok := rt.Underlying().(*types.Pointer); ok {
				rt = p.Elem()
			} else if p, ok := types.Unalias(rt).(*types.Pointer); ok {
				rt = p.Elem()
			}
			if nm, ok := types.Unalias(rt).(*types.Named); ok && nm.TypeArgs() != nil {
				for i := 0; i < nm.TypeArgs().Len(); i++ {
					e.pendingRecvTargs = append(e.pendingRecvTargs, nm.TypeArgs().At(i))
				}
			}
		}
	}
	if fi != nil && instIdent != nil {
		if inst, ok := info.Instances[instIdent]; ok && inst.TypeArgs != nil {
			for i := 0; i < inst.TypeArgs.Len(); i++ {
				e.pendingTargs = append(e.pendingTargs, inst.TypeArgs.At(i))
			}
		}
	}
	if fi == nil {
		// external function: assumed not to write tracked state, except via known ghost state
		if callee.Pkg() != nil && callee.Pkg().Path() == "math/big" {
			out["GH_bigval"] = types.Typ[types.UntypedInt]
		}
		if callee.Pkg() != nil && callee.Pkg().Path() == "sync" {
			out["GH_lockstate"] = types.Typ[types.UntypedInt]
		}
		return
	}
	e.modFunc(c, fi, out, seen)
}

// modOfMethodName: union of the mod-sets of all repo methods with this name (CHA by name).
func (e *Engine) modOfMethodName(c *FnCtx, m *types.Func) map[string]types.Type {
	return e.modOfMethodNameSeen(c, m, map[*types.Func]bool{})
}

func (e *Engine) modOfMethodNameSeen(c *FnCtx, m *types.Func, seen map[*types.Func]bool) map[string]types.Type {
	out := map[string]types.Type{}
	siteIface := e.chaIface // the static interface of the receiver at the call this comes from
	e.chaIface = nil
	if ct := e.Contracts[FuncKey(m)]; ct != nil && ct.AssignsGiven {
		// the interface method itself carries a frame contract
		for _, a := range ct.Assigns {
			e.modOfAssignsClause(c, nil, a.Expr, out)
		}
		return out
	}
	if seen[m] {
		return out
	}
	seen[m] = true
	var keys []string
	// the interface the method was declared in (nil when not recoverable): only receivers that
	// implement it can be behind the call
	var iface *types.Interface
	if msig, ok := m.Type().(*types.Signature); ok && msig.Recv() != nil {
		iface, _ = msig.Recv().Type().Underlying().(*types.Interface)
	}
	if siteIface != nil {
		iface = siteIface
	}
	for k, fi := range e.Funcs {
		if fi.Obj != nil && fi.Obj.Name() == m.Name() && fi.Sig.Recv() != nil {
			if iface != nil && iface.NumMethods() > 0 {
				rt := fi.Sig.Recv().Type()
				if _, isPtr := rt.(*types.Pointer); !isPtr {
					// methods with value receivers are in the method set of T and *T
					if !types.Implements(rt, iface) && !types.Implements(types.NewPointer(rt), iface) {
						continue
					}
				} else if !types.Implements(rt, iface) {
					continue
				}
			}
			keys = append(keys, k)
		}
	}
	sort.Strings(keys)
	if len(keys) > 400 {
		if os.Getenv("ELKVC_MODS_WHY") != "" {
			fmt.Fprintf(os.Stderr, "mods * : interface method %s has %d implementations\n", m.Name(), len(keys))
		}
		starWhy(out, 16)
		return out
	}
	for _, k := range keys {
		e.modFunc(c, e.Funcs[k], out, seen)
	}
	return out
}

// starWhy marks a frame as "anything" (ELKVC_MODS_WHY=1 prints which rule did).
func starWhy(out map[string]types.Type, site int) {
	if os.Getenv("ELKVC_MODS_WHY") != "" {
		if _, have := out["*"]; !have {
			fmt.Fprintf(os.Stderr, "mods * : rule %d of call.go\n", site)
		}
	}
	out["*"] = nil
}
