package vc

import (
	"go/ast"
	"go/token"
	"go/types"
)

// reinterpret recognises the bit-reinterpretation idiom
//
//	*(*T)(unsafe.Pointer(&x))
//
// and gives it its machine meaning for the pairs of types used in the code
// base: integers of equal size (two's complement), float <-> unsigned integer
// of the same width (IEEE bits), interface <-> two-word struct.
func (c *FnCtx) reinterpret(env *Env, x *ast.StarExpr) (Val, bool) {
	if env.spec {
		return Val{}, false
	}
	conv, ok := unparen(x.X).(*ast.CallExpr)
	if !ok || len(conv.Args) != 1 {
		return Val{}, false
	}
	tv, ok := c.info().Types[unparen(conv.Fun)]
	if !ok || !tv.IsType() {
		return Val{}, false
	}
	pt, ok := c.subst(tv.Type).Underlying().(*types.Pointer)
	if !ok {
		return Val{}, false
	}
	inner, ok := unparen(conv.Args[0]).(*ast.CallExpr)
	if !ok || len(inner.Args) != 1 {
		return Val{}, false
	}
	itv, ok := c.info().Types[unparen(inner.Fun)]
	if !ok || !itv.IsType() {
		return Val{}, false
	}
	if b, ok := itv.Type.Underlying().(*types.Basic); !ok || b.Kind() != types.UnsafePointer {
		return Val{}, false
	}
	addr, ok := unparen(inner.Args[0]).(*ast.UnaryExpr)
	if !ok || addr.Op != token.AND {
		return Val{}, false
	}
	src := c.eval(env, addr.X)
	dstT := c.subst(pt.Elem())
	srcT := c.subst(src.Typ)
	ss, ds := c.sizeof(srcT), c.sizeof(dstT)
	if st, ok := dstT.Underlying().(*types.Struct); ok && st.NumFields() == 0 {
		return c.zero(dstT), true // zero-size target: nothing is read
	}
	if ds > ss {
		c.unsup(x, "unsafe reinterpretation reads %d bytes from a %d-byte object (%s as %s)", ds, ss, srcT, dstT)
	}
	_, _, srcInt := intInfo(srcT)
	dstBits, _, dstInt := intInfo(dstT)
	srcFB, srcF := isFloat(srcT)
	dstFB, dstF := isFloat(dstT)
	switch {
	case srcInt && dstInt:
		if ss != ds {
			// reading the low bytes of a wider integer (little endian)
		}
		return Val{T: c.wrap(src.T, dstT, env), Typ: dstT}, true
	case srcF && dstInt:
		tb, _ := c.fpBits(srcFB)
		bits := app(tb, src.T)
		_ = dstBits
		return Val{T: c.wrap(bits, dstT, env), Typ: dstT}, true
	case srcInt && dstF:
		_, fb := c.fpBits(dstFB)
		// the integer is first reduced to the unsigned range of the float's width
		u := types.Typ[types.Uint64]
		if dstFB == 32 {
			u = types.Typ[types.Uint32]
		}
		return Val{T: app(fb, c.wrap(src.T, u, env)), Typ: dstT}, true
	case srcF && dstF && srcFB == dstFB:
		return Val{T: src.T, Typ: dstT}, true
	}
	// interface <-> two-word struct
	if _, isI := srcT.Underlying().(*types.Interface); isI {
		if st, ok := dstT.Underlying().(*types.Struct); ok && st.NumFields() == 2 {
			name := c.sortOf(dstT)
			return Val{T: app("mk_"+name, app("if_tab", src.T), app("if_ptr", src.T)), Typ: dstT}, true
		}
	}
	if st, ok := srcT.Underlying().(*types.Struct); ok && st.NumFields() == 2 {
		if _, isI := dstT.Underlying().(*types.Interface); isI {
			f0 := app(c.fieldAcc(srcT, st.Field(0).Name()), src.T)
			f1 := app(c.fieldAcc(srcT, st.Field(1).Name()), src.T)
			return Val{T: app("mk_Iface", f0, f1), Typ: dstT}, true
		}
	}
	if c.sortOf(srcT) == c.sortOf(dstT) {
		return Val{T: src.T, Typ: dstT}, true
	}
	c.unsup(x, "unsafe reinterpretation %s as %s", srcT, dstT)
	return Val{}, false
}
