package vc

import (
	"go/ast"
	"go/token"
	"go/types"
)

// Locals whose address is taken (explicitly with & or implicitly by calling a
// pointer-receiver method on them) live in the heap: the variable maps to the
// address of a cell, reads and writes go through memory, and &x is that address.
// (The unsafe reinterpretation idiom *(*T)(unsafe.Pointer(&x)) is handled by value
// and does not make x escape.)

func (c *FnCtx) scanBoxed(info *types.Info, body ast.Node) {
	if body == nil {
		return
	}
	if c.boxed == nil {
		c.boxed = map[types.Object]bool{}
	}
	skip := map[*ast.UnaryExpr]bool{}
	ast.Inspect(body, func(n ast.Node) bool {
		x, ok := n.(*ast.StarExpr)
		if !ok {
			return true
		}
		if conv, ok := unparen(x.X).(*ast.CallExpr); ok && len(conv.Args) == 1 {
			if inner, ok := unparen(conv.Args[0]).(*ast.CallExpr); ok && len(inner.Args) == 1 {
				if tv, ok := info.Types[unparen(inner.Fun)]; ok && tv.IsType() {
					if b, ok := tv.Type.Underlying().(*types.Basic); ok && b.Kind() == types.UnsafePointer {
						if u, ok := unparen(inner.Args[0]).(*ast.UnaryExpr); ok && u.Op == token.AND {
							skip[u] = true
						}
					}
				}
			}
		}
		return true
	})
	mark := func(e ast.Expr) {
		if id, ok := unparen(e).(*ast.Ident); ok {
			if v, ok := info.ObjectOf(id).(*types.Var); ok && !v.IsField() && !(v.Pkg() != nil && v.Parent() == v.Pkg().Scope()) {
				c.boxed[v] = true
			}
		}
	}
	ast.Inspect(body, func(n ast.Node) bool {
		switch x := n.(type) {
		case *ast.UnaryExpr:
			if x.Op == token.AND && !skip[x] {
				mark(x.X)
			}
		case *ast.CallExpr:
			if sel, ok := unparen(x.Fun).(*ast.SelectorExpr); ok {
				if s, ok := info.Selections[sel]; ok && s.Kind() == types.MethodVal {
					if m, ok := s.Obj().(*types.Func); ok {
						if _, ptr := m.Type().(*types.Signature).Recv().Type().(*types.Pointer); ptr {
							if t := info.TypeOf(sel.X); t != nil {
								if _, isPtr := t.Underlying().(*types.Pointer); !isPtr {
									mark(sel.X)
								}
							}
						}
					}
				}
			}
		}
		return true
	})
}

// declareVar binds a freshly declared variable.
func (c *FnCtx) declareVar(st *State, obj types.Object, v Val) {
	if c.boxed[obj] {
		t := obj.Type()
		a := c.allocate(st, "64")
		c.storeTo(&Env{st: st}, a, t, v.T)
		if isOpaqueStruct(t) && v.T == c.zero(t).T {
			// `var x T` of an external struct type: its ghost state starts as that of a zero T
			c.initOpaque(&Env{st: st}, a, t)
		}
		st.vars[obj] = Val{T: a, Typ: types.NewPointer(t)}
		return
	}
	st.vars[obj] = v
}

// pureResult: i-th result of a `pure` function as an uninterpreted function of its
// arguments and of the heap cells listed in the contract's `reads` clause.
func (c *FnCtx) pureResult(st *State, fn *types.Func, ct *Contract, recv *Val, args []Val, i int) Val {
	sig := fn.Type().(*types.Signature)
	rt := sig.Results().At(i).Type()
	name := "pf_" + sanitize(shortKey(ct.Key)) + "_" + itoa(int64(i))
	var terms, sorts []string
	if recv != nil {
		terms = append(terms, recv.T)
		sorts = append(sorts, c.sortOf(orInt(recv.Typ)))
	}
	for k, a := range args {
		t := a.Typ
		if k < sig.Params().Len() {
			if _, isTP := types.Unalias(sig.Params().At(k).Type()).(*types.TypeParam); !isTP {
				t = sig.Params().At(k).Type()
			}
		}
		if b, ok := c.subst(orInt(t)).Underlying().(*types.Basic); ok && b.Info()&types.IsString != 0 && c.sortOf(orInt(t)) == "Str" {
			// a pure function of a string is a function of its content (equal strings, equal results)
			terms = append(terms, c.strID(a.T))
			sorts = append(sorts, "Int")
			continue
		}
		terms = append(terms, a.T)
		sorts = append(sorts, c.sortOf(orInt(t)))
	}
	for _, r := range ct.Reads {
		key := r
		if r == "bigval" {
			key = "GH_bigval"
		}
		srt := c.heapSort[key]
		if srt == "" {
			srt = "(Array Int Int)"
			c.heapSort[key] = srt
			c.heapType[key] = types.Typ[types.UntypedInt]
		}
		terms = append(terms, c.heapGet(st, key, srt, c.heapType[key]))
		sorts = append(sorts, srt)
	}
	if !c.declSet[name] {
		c.declSet[name] = true
		c.decls = append(c.decls, "(declare-fun "+name+" ("+join(sorts)+") "+c.sortOf(rt)+")")
	}
	t := app(name, terms...)
	if len(terms) == 0 {
		t = name
	}
	c.assumeInv(st, t, rt)
	return Val{T: t, Typ: rt}
}

func join(xs []string) string {
	out := ""
	for i, x := range xs {
		if i > 0 {
			out += " "
		}
		out += x
	}
	return out
}

// guardedAccess: fields declared `guarded T.f by m` may be read only while the mutex field m
// of the same object is held (in any mode) and written only while it is write-locked.
// Functions whose contract says `unshared` (constructors: the object is not published yet)
// are exempt.
func (c *FnCtx) guardedAccess(env *Env, obj string, structT types.Type, st *types.Struct, f *types.Var, write bool, n ast.Node) {
	if c.inSpec > 0 || c.noSafety {
		return
	}
	named, ok := c.subst(structT).(*types.Named)
	if !ok || named.Obj().Pkg() == nil {
		return
	}
	mname, ok := c.E.Guarded[named.Obj().Pkg().Path()+"."+named.Obj().Name()+"."+f.Name()]
	if !ok {
		return
	}
	if c.C != nil && c.C.Unshared {
		return
	}
	var mf *types.Var
	for i := 0; i < st.NumFields(); i++ {
		if st.Field(i).Name() == mname {
			mf = st.Field(i)
		}
	}
	if mf == nil {
		return
	}
	ls := c.ghostGet(env.st, "lockstate", c.interiorAddr(obj, structT, mf))
	if write {
		c.safe(env.st, "guarded-write", eq(ls, "(- 1)"), n)
	} else {
		c.safe(env.st, "guarded-read", not(eq(ls, "0")), n)
	}
}
