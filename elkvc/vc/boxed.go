package vc

import (
	"go/ast"
	"go/token"
	"go/types"
)

// Locals whose address is taken (explicitly with & or implicitly by calling a
// pointer-receiver method on them) live in the heap: the variable maps to the
// address of a cell, reads and writes go through memory, and &x is that address.
// (The unsafe reinterpretation idiom *(*T)(unsafe.Pointer(&x)) is handled by value
// and does not make x escape.)

func (c *FnCtx) scanBoxed(info *types.Info, body ast.Node) {
	if body == nil {
		return
	}
	if c.boxed == nil {
		c.boxed = map[types.Object]bool{}
	}
	skip := map[*ast.UnaryExpr]bool{}
	ast.Inspect(body, func(n ast.Node) bool {
		x, ok := n.(*ast.StarExpr)
		if !ok {
			return true
		}
		if conv, ok := unparen(x.X).(*ast.CallExpr); ok && len(conv.Args) == 1 {
			if inner, ok := unparen(conv.Args[0]).(*ast.CallExpr); ok && len(inner.Args) == 1 {
				if tv, ok := info.Types[unparen(inner.Fun)]; ok && tv.IsType() {
					if b, ok := tv.Type.Underlying().(*types.Basic); ok && b.Kind() == types.UnsafePointer {
						if u, ok := unparen(inner.Args[0]).(*ast.UnaryExpr); ok && u.Op == token.AND {
							skip[u] = true
						}
					}
				}
			}
		}
		return true
	})
	mark := func(e ast.Expr) {
		if id, ok := unparen(e).(*ast.Ident); ok {
			if v, ok := info.ObjectOf(id).(*types.Var); ok && !v.IsField() && !(v.Pkg() != nil && v.Parent() == v.Pkg().Scope()) {
				c.boxed[v] = true
			}
		}
	}
	ast.Inspect(body, func(n ast.Node) bool {
		switch x := n.(type) {
		case *ast.UnaryExpr:
			if x.Op == token.AND && !skip[x] {
				mark(x.X)
			}
		case *ast.CallExpr:
			if sel, ok := unparen(x.Fun).(*ast.SelectorExpr); ok {
				if s, ok := info.Selections[sel]; ok && s.Kind() == types.MethodVal {
					if m, ok := s.Obj().(*types.Func); ok {
						if _, ptr := m.Type().(*types.Signature).Recv().Type().(*types.Pointer); ptr {
							if t := info.TypeOf(sel.X); t != nil {
								if _, isPtr := t.Underlying().(*types.Pointer); !isPtr {
									mark(sel.X)
								}
							}
						}
					}
				}
			}
		}
		return true
	})
}

// declareVar binds a freshly declared variable.
func (c *FnCtx) declareVar(st *State, obj types.Object, v Val) {
	if c.boxed[obj] {
		t := obj.Type()
		a := c.allocate(st, "64")
		c.storeTo(&Env{st: st}, a, t, v.T)
		st.vars[obj] = Val{T: a, Typ: types.NewPointer(t)}
		return
	}
	st.vars[obj] = v
}
