package vc

import (
	"bytes"
	"encoding/json"
	"fmt"
	"go/types"
	"os"
	"os/exec"
	"path/filepath"
	"regexp"
	"strings"
	"time"
)

// ---------------------------------------------------------------------------
// Replay of a counterexample against the real code.
//
// 1. ask the deciding solver for the values of the function's inputs
//    (parameters, and the heap cells they reach) in its model;
// 2. generate an in-package Go test that builds those inputs, calls the REAL
//    function (recovering panics) and prints what it observed;
// 3. inject it with `go test -overlay` (nothing is written under /repo);
// 4. evaluate the violated clause on the concrete inputs and observed outputs.

type replayInput struct {
	name  string
	typ   types.Type
	terms map[string]string // observation name -> SMT term
	vals  map[string]string // observation name -> model value
}

func (e *Engine) replayObligation(o *Obligation) *ReplayResult {
	c := o.ctx
	if c == nil || c.Fn == nil || c.Fn.Decl == nil {
		return nil
	}
	if o.Result.Status != "sat" {
		return &ReplayResult{Summary: "solver gave no model (" + o.Result.Status + ")"}
	}
	fi := c.Fn
	sig := fi.Sig
	if sig.TypeParams() != nil && sig.TypeParams().Len() > 0 {
		return &ReplayResult{Summary: "generic function: replay not supported"}
	}
	// collect inputs
	var ins []*replayInput
	addIn := func(name string, t types.Type) bool {
		v, ok := c.paramVals[name]
		if !ok {
			return false
		}
		in := &replayInput{name: name, typ: t, terms: map[string]string{}, vals: map[string]string{}}
		if !c.replayTerms(in, v) {
			return false
		}
		ins = append(ins, in)
		return true
	}
	var order []string
	if sig.Recv() != nil {
		if sig.Recv().Name() == "" || sig.Recv().Name() == "_" {
			return &ReplayResult{Summary: "unnamed receiver"}
		}
		if !addIn(sig.Recv().Name(), sig.Recv().Type()) {
			return &ReplayResult{Summary: "receiver type not replayable: " + sig.Recv().Type().String()}
		}
		order = append(order, sig.Recv().Name())
	}
	for i := 0; i < sig.Params().Len(); i++ {
		p := sig.Params().At(i)
		if p.Name() == "" || p.Name() == "_" {
			return &ReplayResult{Summary: "unnamed parameter"}
		}
		if !addIn(p.Name(), p.Type()) {
			return &ReplayResult{Summary: "parameter type not replayable: " + p.Type().String()}
		}
	}
	// get-value
	var terms []string
	for _, in := range ins {
		for _, k := range sortedKeys(in.terms) {
			terms = append(terms, in.terms[k])
		}
	}
	q := o.Query
	if q == "" {
		q = o.BuildQuery("", true)
	}
	if len(terms) > 0 {
		q += "(get-value (" + strings.Join(terms, " ") + "))\n"
	}
	r := RunSMT(q, 20, 0, false, []string{o.Result.Solver})
	if r.Status != "sat" {
		return &ReplayResult{Summary: "model extraction failed: " + r.Status}
	}
	vals := parseGetValue(r.Output, len(terms))
	if vals == nil && len(terms) > 0 {
		return &ReplayResult{Summary: "cannot parse get-value output"}
	}
	i := 0
	var inputDesc []string
	for _, in := range ins {
		for _, k := range sortedKeys(in.terms) {
			in.vals[k] = vals[i]
			i++
		}
		inputDesc = append(inputDesc, fmt.Sprintf("%s: %v", in.name, in.vals))
	}
	// generate the test
	src, err := e.genReplayTest(c, ins)
	if err != nil {
		return &ReplayResult{Summary: "cannot build inputs: " + err.Error(), Inputs: inputDesc}
	}
	out, runErr := e.runOverlayTest(fi, src)
	res := &ReplayResult{TestSrc: src, Output: truncate(out, 4000), Inputs: inputDesc}
	m := replayLine.FindStringSubmatch(out)
	if m == nil {
		res.Summary = "replay test produced no observation"
		if runErr != nil {
			res.Summary += " (" + runErr.Error() + ")"
		}
		return res
	}
	var obs map[string]any
	if err := json.Unmarshal([]byte(m[1]), &obs); err != nil {
		res.Summary = "bad observation JSON"
		return res
	}
	panicked, _ := obs["panic"].(bool)
	if panicked {
		msg, _ := obs["panic_msg"].(string)
		// a Go panic in a function whose contract does not allow one is a violation by itself
		res.Confirmed = true
		res.Summary = fmt.Sprintf("CONFIRMED: real %s panics on the model's inputs: %s", shortKey(fi.Key), msg)
		return res
	}
	if o.Kind == "safe" || o.Kind == "pre" {
		res.Summary = "real function did not panic on the model's inputs; obligation is about an internal condition"
		return res
	}
	if o.Kind == "frame" && strings.HasSuffix(o.Name, "GH_bigval") {
		// frame on big integers: an operand the contract says is not modified must read the same afterwards
		for _, in := range ins {
			before, ok := modelInt(in.vals["big"])
			if !ok {
				continue
			}
			if pv, _ := modelInt(in.vals["ptr"]); pv == "0" {
				continue
			}
			var after string
			switch p := obs["post_"+in.name].(type) {
			case string:
				after = p
			case map[string]any:
				after, _ = p["big"].(string)
			}
			if after != "" && after != before {
				res.Confirmed = true
				res.Summary = fmt.Sprintf("CONFIRMED: real %s changed its operand %s from %s to %s although the contract's frame forbids it", shortKey(fi.Key), in.name, before, after)
				return res
			}
		}
		res.Summary = "operands unchanged on the model's inputs"
		return res
	}
	if o.Kind != "post" {
		res.Summary = "obligation kind " + o.Kind + " has no executable check"
		return res
	}
	ok, why := e.confirmPost(o, ins, obs)
	res.Confirmed = ok
	if ok {
		res.Summary = "CONFIRMED: the clause is false for the real function's result: " + why
	} else {
		res.Summary = "not confirmed: " + why
	}
	return res
}

var replayLine = regexp.MustCompile(`REPLAY-JSON (\{.*\})`)

func sortedKeys(m map[string]string) []string {
	var ks []string
	for k := range m {
		ks = append(ks, k)
	}
	for i := 1; i < len(ks); i++ {
		for j := i; j > 0 && ks[j] < ks[j-1]; j-- {
			ks[j], ks[j-1] = ks[j-1], ks[j]
		}
	}
	return ks
}

func parseGetValue(out string, n int) []string {
	// find the last top-level "((" block
	idx := strings.Index(out, "((")
	if idx < 0 {
		return nil
	}
	body, _ := readSexp(out[idx:])
	if len(body) < 2 {
		return nil
	}
	inner := body[1 : len(body)-1]
	var vals []string
	pos := 0
	for len(vals) < n {
		pair, k := readSexp(inner[pos:])
		if pair == "" {
			break
		}
		pos += k
		p := strings.TrimSpace(pair)
		p = p[1 : len(p)-1]
		_, k1 := readSexp(p)
		v, _ := readSexp(p[k1:])
		vals = append(vals, strings.Join(strings.Fields(v), " "))
	}
	if len(vals) != n {
		return nil
	}
	return vals
}

func (c *FnCtx) isValueType(t types.Type) bool { return c.isMemStruct(t) }

func isBigIntPtr(t types.Type) bool {
	p, ok := types.Unalias(t).(*types.Pointer)
	if !ok {
		return false
	}
	s := types.TypeString(p.Elem(), nil)
	return s == RepoModule+"/value.BigInt" || s == "math/big.Int"
}

// replayTerms lists the SMT terms whose model values determine input v.
func (c *FnCtx) replayTerms(in *replayInput, v Val) bool {
	t := c.subst(in.typ)
	if _, _, ok := intInfo(t); ok {
		in.terms["v"] = v.T
		return true
	}
	if _, ok := isFloat(t); ok {
		in.terms["v"] = v.T
		return true
	}
	if b, ok := t.Underlying().(*types.Basic); ok && b.Info()&types.IsBoolean != 0 {
		in.terms["v"] = v.T
		return true
	}
	if c.isValueType(t) {
		in.terms["flag"] = app(c.fieldAcc(t, "flag"), v.T)
		in.terms["data"] = app(c.fieldAcc(t, "data"), v.T)
		in.terms["ptr"] = app(c.fieldAcc(t, "ptr"), v.T)
		in.terms["big"] = c.ghostGet(c.entry, "bigval", app(c.fieldAcc(t, "ptr"), v.T))
		return true
	}
	if isBigIntPtr(t) {
		in.terms["ptr"] = v.T
		in.terms["big"] = c.ghostGet(c.entry, "bigval", v.T)
		return true
	}
	return false
}

func modelInt(v string) (string, bool) { return evalIntModel(v) }

// fpModelToGo turns an SMT FP model value into a Go expression of type float64/float32.
func fpModelToGo(v string, bits int) (string, bool) {
	v = strings.TrimSpace(v)
	fn := "math.Float64frombits"
	if bits == 32 {
		fn = "math.Float32frombits"
	}
	switch {
	case strings.HasPrefix(v, "(fp "):
		parts := strings.Fields(strings.TrimSuffix(strings.TrimPrefix(v, "(fp "), ")"))
		if len(parts) != 3 {
			return "", false
		}
		bin := ""
		for _, p := range parts {
			switch {
			case strings.HasPrefix(p, "#b"):
				bin += p[2:]
			case strings.HasPrefix(p, "#x"):
				for _, h := range p[2:] {
					var n int
					fmt.Sscanf(string(h), "%x", &n)
					bin += fmt.Sprintf("%04b", n)
				}
			default:
				return "", false
			}
		}
		return fmt.Sprintf("%s(0b%s)", fn, bin), true
	case strings.Contains(v, "+zero"):
		return fn + "(0)", true
	case strings.Contains(v, "-zero"):
		if bits == 32 {
			return fn + "(1<<31)", true
		}
		return fn + "(1<<63)", true
	case strings.Contains(v, "+oo"):
		if bits == 32 {
			return "float32(math.Inf(1))", true
		}
		return "math.Inf(1)", true
	case strings.Contains(v, "-oo"):
		if bits == 32 {
			return "float32(math.Inf(-1))", true
		}
		return "math.Inf(-1)", true
	case strings.Contains(v, "NaN"):
		if bits == 32 {
			return "float32(math.NaN())", true
		}
		return "math.NaN()", true
	}
	return "", false
}

// goInputExpr builds the Go expression constructing input `in` inside package pkgName.
func (c *FnCtx) goInputExpr(in *replayInput, q func(string) string) (string, error) {
	t := c.subst(in.typ)
	tn := types.TypeString(t, func(p *types.Package) string {
		if p == c.Fn.Pkg.Types {
			return ""
		}
		return p.Name()
	})
	if bits, _, ok := intInfo(t); ok {
		iv, ok := modelInt(in.vals["v"])
		if !ok {
			return "", fmt.Errorf("non-integer model value %q", in.vals["v"])
		}
		_ = bits
		return fmt.Sprintf("%s(%s)", tn, iv), nil
	}
	if bits, ok := isFloat(t); ok {
		g, ok := fpModelToGo(in.vals["v"], bits)
		if !ok {
			return "", fmt.Errorf("float model value %q", in.vals["v"])
		}
		return fmt.Sprintf("%s(%s)", tn, g), nil
	}
	if b, ok := t.Underlying().(*types.Basic); ok && b.Info()&types.IsBoolean != 0 {
		return fmt.Sprintf("%s(%s)", tn, in.vals["v"]), nil
	}
	if isBigIntPtr(t) {
		pv, _ := modelInt(in.vals["ptr"])
		if pv == "0" {
			return "(" + tn + ")(nil)", nil
		}
		bv, ok := modelInt(in.vals["big"])
		if !ok {
			return "", fmt.Errorf("bad bigval")
		}
		return fmt.Sprintf("(%s)(verifBig(%q))", tn, bv), nil
	}
	if c.isValueType(t) {
		flag, _ := modelInt(in.vals["flag"])
		data, _ := modelInt(in.vals["data"])
		ptr, _ := modelInt(in.vals["ptr"])
		vq := q("value")
		switch flag {
		case c.constInt("SMALL_INT_FLAG"):
			return fmt.Sprintf("%sSmallInt(verifI64(%q)).ToValue()", vq, data), nil
		case c.constInt("FLOAT_FLAG"):
			return "", fmt.Errorf("float Value inputs are built from bits not yet supported")
		case c.constInt("REFERENCE_FLAG"):
			if data == c.typeTagIfKnown("*"+RepoModule+"/value.BigInt") && ptr != "0" {
				bv, ok := modelInt(in.vals["big"])
				if !ok {
					return "", fmt.Errorf("bad bigval")
				}
				return fmt.Sprintf("%sRef((*%sBigInt)(verifBig(%q)))", vq, vq, bv), nil
			}
			return "", fmt.Errorf("reference Value of unknown dynamic type (tag %s)", data)
		case "0":
			return vq + "Undefined", nil
		case c.constInt("NIL_FLAG"):
			return vq + "Nil", nil
		case c.constInt("BOOL_FLAG"):
			if data == "0" {
				return vq + "False", nil
			}
			return vq + "True", nil
		}
		if c.Fn.Pkg.Types.Name() == "value" {
			return fmt.Sprintf("Value{flag: %s, data: uintptr(%s)}", flag, data), nil
		}
		return "", fmt.Errorf("Value with flag %s", flag)
	}
	return "", fmt.Errorf("type %s", t)
}

func (c *FnCtx) constInt(name string) string {
	for _, p := range c.E.All {
		if p.PkgPath == RepoModule+"/value" {
			if o, ok := p.Types.Scope().Lookup(name).(*types.Const); ok {
				return o.Val().ExactString()
			}
		}
	}
	return "?"
}

func (c *FnCtx) typeTagIfKnown(typeString string) string {
	if id, ok := c.typeTags[typeString]; ok {
		return fmt.Sprint(id)
	}
	return "?"
}

func (e *Engine) genReplayTest(c *FnCtx, ins []*replayInput) (string, error) {
	fi := c.Fn
	pkgName := fi.Pkg.Types.Name()
	q := func(p string) string {
		if p == pkgName {
			return ""
		}
		return p + "."
	}
	var b strings.Builder
	fmt.Fprintf(&b, "package %s\n\nimport (\n\t\"encoding/json\"\n\t\"fmt\"\n\t\"math\"\n\t\"math/big\"\n\t\"testing\"\n", pkgName)
	if pkgName != "value" {
		fmt.Fprintf(&b, "\t\"%s/value\"\n", RepoModule)
	}
	b.WriteString(")\n\nvar _ = math.Inf\nvar _ = big.NewInt\n\n")
	b.WriteString("func verifBig(s string) *big.Int { b, _ := new(big.Int).SetString(s, 10); return b }\n\n")
	b.WriteString("// verifI64 reinterprets an unsigned 64-bit word (as stored in Value.data) as int64\nfunc verifI64(s string) int64 { b, _ := new(big.Int).SetString(s, 10); return int64(b.Uint64()) }\n\n")
	vq := q("value")
	fmt.Fprintf(&b, `func verifObsValue(v %sValue) map[string]any {
	m := map[string]any{}
	m["undefined"] = v.IsUndefined()
	m["inspect"] = func() (s string) { defer func() { if r := recover(); r != nil { s = "<inspect panicked>" } }(); return v.Inspect() }()
	m["flag"] = int(v.ValueFlag())
	if v.IsSmallInt() {
		m["small"] = fmt.Sprint(int64(v.AsSmallInt()))
	}
	if v.IsReference() {
		if bi, ok := v.AsReference().(*%sBigInt); ok {
			m["big"] = bi.ToGoBigInt().String()
		} else if ob, ok := v.AsReference().(*%sObject); ok {
			m["object_class"] = ob.Class().Name
		} else {
			m["ref_type"] = fmt.Sprintf("%%T", v.AsReference())
		}
	}
	if v.IsFloat() {
		m["float_bits"] = fmt.Sprint(math.Float64bits(float64(v.AsFloat())))
	}
	return m
}

`, vq, vq, vq)
	b.WriteString("func TestVerifReplay(t *testing.T) {\n\tobs := map[string]any{}\n")
	b.WriteString("\tdefer func() {\n\t\tif r := recover(); r != nil {\n\t\t\tobs[\"panic\"] = true\n\t\t\tobs[\"panic_msg\"] = fmt.Sprint(r)\n\t\t}\n\t\tj, _ := json.Marshal(obs)\n\t\tfmt.Println(\"REPLAY-JSON \" + string(j))\n\t}()\n")
	sig := fi.Sig
	var argNames []string
	recvName := ""
	for _, in := range ins {
		ex, err := c.goInputExpr(in, q)
		if err != nil {
			return "", fmt.Errorf("%s: %v", in.name, err)
		}
		fmt.Fprintf(&b, "\tin_%s := %s\n", in.name, ex)
		if sig.Recv() != nil && in.name == sig.Recv().Name() && recvName == "" {
			recvName = "in_" + in.name
		} else {
			argNames = append(argNames, "in_"+in.name)
		}
	}
	call := ""
	if sig.Recv() != nil {
		call = fmt.Sprintf("%s.%s(%s)", recvName, fi.Obj.Name(), strings.Join(argNames, ", "))
	} else {
		call = fmt.Sprintf("%s(%s)", fi.Obj.Name(), strings.Join(argNames, ", "))
	}
	n := sig.Results().Len()
	var rs []string
	for i := 0; i < n; i++ {
		rs = append(rs, fmt.Sprintf("r%d", i))
	}
	if n > 0 {
		fmt.Fprintf(&b, "\t%s := %s\n", strings.Join(rs, ", "), call)
	} else {
		fmt.Fprintf(&b, "\t%s\n", call)
	}
	for i := 0; i < n; i++ {
		rt := c.subst(sig.Results().At(i).Type())
		switch {
		case c.isValueType(rt):
			fmt.Fprintf(&b, "\tobs[\"r%d\"] = verifObsValue(r%d)\n", i, i)
		case isBigIntPtr(rt):
			fmt.Fprintf(&b, "\tif r%d != nil { obs[\"r%d\"] = map[string]any{\"big\": (*big.Int)(r%d).String()} } else { obs[\"r%d\"] = map[string]any{\"nil\": true} }\n", i, i, i, i)
		default:
			if bits, ok := isFloat(rt); ok {
				if bits == 32 {
					fmt.Fprintf(&b, "\tobs[\"r%d\"] = map[string]any{\"float_bits\": fmt.Sprint(math.Float32bits(float32(r%d)))}\n", i, i)
				} else {
					fmt.Fprintf(&b, "\tobs[\"r%d\"] = map[string]any{\"float_bits\": fmt.Sprint(math.Float64bits(float64(r%d)))}\n", i, i)
				}
			} else if stt, isS := rt.Underlying().(*types.Struct); isS && plainIntStruct(stt) {
				// a struct of integer/boolean fields: observe each field (the test is in-package)
				fmt.Fprintf(&b, "\tobs[\"r%d\"] = map[string]any{\"struct\": map[string]any{", i)
				for k := 0; k < stt.NumFields(); k++ {
					fmt.Fprintf(&b, "%q: fmt.Sprint(r%d.%s), ", stt.Field(k).Name(), i, stt.Field(k).Name())
				}
				b.WriteString("}}\n")
			} else {
				fmt.Fprintf(&b, "\tobs[\"r%d\"] = map[string]any{\"v\": fmt.Sprint(r%d)}\n", i, i)
			}
		}
	}
	// post-state of big integer operands (frame)
	for _, in := range ins {
		t := c.subst(in.typ)
		if isBigIntPtr(t) {
			fmt.Fprintf(&b, "\tif in_%s != nil { obs[\"post_%s\"] = (*big.Int)(in_%s).String() }\n", in.name, in.name, in.name)
		}
		if c.isValueType(t) {
			fmt.Fprintf(&b, "\tobs[\"post_%s\"] = verifObsValue(in_%s)\n", in.name, in.name)
		}
	}
	b.WriteString("}\n")
	return b.String(), nil
}

// plainIntStruct: every field is an integer or a boolean.
func plainIntStruct(st *types.Struct) bool {
	if st.NumFields() == 0 {
		return false
	}
	for i := 0; i < st.NumFields(); i++ {
		b, ok := st.Field(i).Type().Underlying().(*types.Basic)
		if !ok || b.Info()&(types.IsInteger|types.IsBoolean) == 0 {
			return false
		}
	}
	return true
}

func (e *Engine) runOverlayTest(fi *FuncInfo, src string) (string, error) {
	dir, err := os.MkdirTemp("", "elkvc-replay-")
	if err != nil {
		return "", err
	}
	defer os.RemoveAll(dir)
	pkgDir := filepath.Dir(e.Fset.Position(fi.Decl.Pos()).Filename)
	testFile := filepath.Join(dir, "verif_replay_test.go")
	os.WriteFile(testFile, []byte(src), 0o644)
	ov := map[string]any{"Replace": map[string]string{filepath.Join(pkgDir, "verif_replay_test.go"): testFile}}
	ob, _ := json.Marshal(ov)
	ovFile := filepath.Join(dir, "overlay.json")
	os.WriteFile(ovFile, ob, 0o644)
	cmd := exec.Command("go", "test", "-overlay", ovFile, "-vet=off", "-count=1", "-timeout", "60s", "-run", "^TestVerifReplay$", "-v", ".")
	cmd.Dir = pkgDir
	var out bytes.Buffer
	cmd.Stdout = &out
	cmd.Stderr = &out
	done := make(chan error, 1)
	go func() { done <- cmd.Run() }()
	select {
	case err = <-done:
	case <-time.After(10 * time.Minute):
		cmd.Process.Kill()
		err = fmt.Errorf("replay timed out")
	}
	return out.String(), err
}

// confirmPost evaluates the violated postcondition on the concrete inputs and
// observed outputs: CONFIRMED iff the clause is false for them.
func (e *Engine) confirmPost(o *Obligation, ins []*replayInput, obs map[string]any) (bool, string) {
	c0 := o.ctx
	fi := c0.Fn
	ct := c0.C
	var clause *Clause
	for i := range ct.Ensures {
		if "post:"+ct.Ensures[i].Label == o.Kind+":"+strings.SplitN(o.Name, "#post:", 2)[1] {
			clause = &ct.Ensures[i]
		}
	}
	if clause == nil {
		return false, "clause not found"
	}
	c := e.newCtx(fi, ct)
	c.noSafety = true
	// type tags must agree with the original context (spec fns use tagof)
	for k, v := range c0.typeTags {
		c.typeTags[k] = v
	}
	entry := &State{pc: "true", vars: map[types.Object]Val{}, heap: map[string]string{}, epoch: 0, alloc: "1000000"}
	exit := &State{pc: "true", vars: map[types.Object]Val{}, heap: map[string]string{}, epoch: 1, alloc: "2000000"}
	c.entry = entry
	nextAddr := 1000
	bigEntry := c.heapGet(entry, "GH_bigval", "(Array Int Int)", types.Typ[types.UntypedInt])
	bigExit := c.heapGet(exit, "GH_bigval", "(Array Int Int)", types.Typ[types.UntypedInt])
	var why []string
	mkValue := func(t types.Type, flag, data, ptr string) string {
		c.sortOf(t)
		return app("mk_"+c.sortOf(t), data, ptr, flag, "0")
	}
	var valueT types.Type
	for _, p := range e.All {
		if p.PkgPath == RepoModule+"/value" {
			valueT = p.Types.Scope().Lookup("Value").Type()
		}
	}
	// inputs
	for _, in := range ins {
		t := c.subst(in.typ)
		var term string
		switch {
		case c.isValueType(t):
			flag, _ := modelInt(in.vals["flag"])
			data, _ := modelInt(in.vals["data"])
			ptr, _ := modelInt(in.vals["ptr"])
			term = mkValue(t, intLit(flag), intLit(data), intLit(ptr))
			if bv, ok := modelInt(in.vals["big"]); ok && ptr != "0" {
				bigEntry = app("store", bigEntry, intLit(ptr), intLit(bv))
				post := bv
				if pm, ok := obs["post_"+in.name].(map[string]any); ok {
					if s, ok := pm["big"].(string); ok {
						post = s
					}
				}
				bigExit = app("store", bigExit, intLit(ptr), intLit(post))
			}
		case isBigIntPtr(t):
			ptr, _ := modelInt(in.vals["ptr"])
			term = intLit(ptr)
			if bv, ok := modelInt(in.vals["big"]); ok && ptr != "0" {
				bigEntry = app("store", bigEntry, intLit(ptr), intLit(bv))
				post := bv
				if s, ok := obs["post_"+in.name].(string); ok {
					post = s
				}
				bigExit = app("store", bigExit, intLit(ptr), intLit(post))
			}
		default:
			if _, isF := isFloat(t); isF {
				term = in.vals["v"]
			} else if iv, ok := modelInt(in.vals["v"]); ok {
				term = intLit(iv)
			} else {
				term = in.vals["v"]
			}
		}
		c.paramVals[in.name] = Val{T: term, Typ: in.typ}
		why = append(why, fmt.Sprintf("%s=%s", in.name, describeInput(in)))
	}
	// outputs
	sig := fi.Sig
	m := map[string]Val{}
	_, _, resn := c.paramNames(fi.Obj, ct)
	for i := 0; i < sig.Results().Len(); i++ {
		rt := c.subst(sig.Results().At(i).Type())
		om, _ := obs[fmt.Sprintf("r%d", i)].(map[string]any)
		if om == nil {
			return false, "missing observation of result"
		}
		var term string
		switch {
		case c.isValueType(rt):
			flag := fmt.Sprint(int(om["flag"].(float64)))
			switch {
			case om["small"] != nil:
				sv := om["small"].(string)
				term = mkValue(rt, flag, app("wrapU64", intLit(sv)), "0")
			case om["big"] != nil:
				nextAddr++
				addr := fmt.Sprint(2000000 + nextAddr)
				bigExit = app("store", bigExit, addr, intLit(om["big"].(string)))
				term = mkValue(rt, flag, c.typeTag(types.NewPointer(lookupType(e, "BigInt"))), addr)
			case om["object_class"] != nil:
				nextAddr++
				addr := fmt.Sprint(2000000 + nextAddr)
				objT := lookupType(e, "Object")
				term = mkValue(rt, flag, c.typeTag(types.NewPointer(objT)), addr)
				// class identity: the global class variable with the same name + "Class"
				cls := om["object_class"].(string)
				if i := strings.LastIndex(cls, "::"); i >= 0 {
					cls = cls[i+2:]
				}
				if g := lookupVar(e, cls+"Class"); g != nil {
					gv := c.globalVar(&Env{st: exit, spec: true}, g)
					_, stt, _ := c.structOf(objT)
					for k := 0; k < stt.NumFields(); k++ {
						if stt.Field(k).Name() == "class" {
							c.writeField(exit, addr, objT, stt.Field(k), gv.T)
						}
					}
					// distinct class globals are distinct objects
					c.facts = append(c.facts, app(">", gv.T, "0"))
				}
			case om["float_bits"] != nil:
				term = mkValue(rt, flag, intLit(om["float_bits"].(string)), "0")
			default:
				if om["undefined"] == true {
					term = mkValue(rt, "0", "0", "0")
				} else {
					return false, "result value not representable: " + fmt.Sprint(om)
				}
			}
		case isBigIntPtr(rt):
			if om["nil"] == true {
				term = "0"
			} else {
				nextAddr++
				addr := fmt.Sprint(2000000 + nextAddr)
				bigExit = app("store", bigExit, addr, intLit(om["big"].(string)))
				term = addr
			}
		default:
			if bits, isF := isFloat(rt); isF {
				_, fb := c.fpBits(bits)
				term = app(fb, intLit(om["float_bits"].(string)))
				// exact bits: use to_fp from bit-vector instead of the uninterpreted bijection
				if bits == 64 {
					term = fmt.Sprintf("((_ to_fp 11 53) ((_ int2bv 64) %s))", intLit(om["float_bits"].(string)))
				} else {
					term = fmt.Sprintf("((_ to_fp 8 24) ((_ int2bv 32) %s))", intLit(om["float_bits"].(string)))
				}
			} else if fm, isStruct := om["struct"].(map[string]any); isStruct {
				stt := rt.Underlying().(*types.Struct)
				var fs []string
				for k := 0; k < stt.NumFields(); k++ {
					s, _ := fm[stt.Field(k).Name()].(string)
					switch s {
					case "true", "false":
						fs = append(fs, s)
					default:
						fs = append(fs, intLit(s))
					}
				}
				term = app("mk_"+c.sortOf(rt), fs...)
			} else {
				s, _ := om["v"].(string)
				switch s {
				case "true", "false":
					term = s
				default:
					term = intLit(s)
				}
			}
		}
		v := Val{T: term, Typ: rt}
		if i < len(resn) && resn[i] != "" && resn[i] != "_" {
			m[resn[i]] = v
		}
		m[fmt.Sprintf("ret%d", i)] = v
		if sig.Results().Len() == 1 {
			m["ret"] = v
		}
		why = append(why, fmt.Sprintf("result%d=%v", i, om))
	}
	_ = valueT
	entry.heap["GH_bigval"] = bigEntry
	exit.heap["GH_bigval"] = bigExit
	postEnv := &Env{st: exit, spec: true, old: entry, spkg: fi.Pkg.Types,
		lookup: func(n string) (Val, bool) {
			if v, ok := m[n]; ok {
				return v, true
			}
			v, ok := c.paramVals[n]
			return v, ok
		}}
	var g Val
	var evalErr string
	func() {
		defer func() {
			if r := recover(); r != nil {
				if u, ok := r.(unsupported); ok {
					evalErr = u.msg
					return
				}
				panic(r)
			}
		}()
		g = c.eval(postEnv, clause.Expr)
	}()
	if evalErr != "" {
		return false, "cannot evaluate clause concretely: " + evalErr
	}
	build := func(neg bool) string {
		var b strings.Builder
		b.WriteString("(set-logic ALL)\n" + prelude)
		for _, d := range c.decls {
			b.WriteString(d + "\n")
		}
		for _, f := range c.facts {
			b.WriteString("(assert " + f + ")\n")
		}
		if neg {
			b.WriteString("(assert (not " + g.T + "))\n")
		} else {
			b.WriteString("(assert " + g.T + ")\n")
		}
		b.WriteString("(check-sat)\n")
		return b.String()
	}
	rTrue := RunSMT(build(false), 20, 0, false, nil)
	rFalse := RunSMT(build(true), 20, 0, false, nil)
	desc := strings.Join(why, ", ")
	if rTrue.Status == "unsat" && rFalse.Status != "unsat" {
		return true, desc
	}
	if rFalse.Status == "unsat" {
		return false, "the clause holds for the real result (" + desc + "): the symbolic counterexample does not correspond to a real execution"
	}
	return false, "clause value undetermined on the concrete observation (" + desc + ")"
}

func describeInput(in *replayInput) string {
	if v, ok := in.vals["v"]; ok {
		return v
	}
	var parts []string
	for _, k := range sortedKeys(in.vals) {
		parts = append(parts, k+":"+in.vals[k])
	}
	return "{" + strings.Join(parts, " ") + "}"
}

func lookupType(e *Engine, name string) types.Type {
	for _, p := range e.All {
		if p.PkgPath == RepoModule+"/value" {
			if o := p.Types.Scope().Lookup(name); o != nil {
				return o.Type()
			}
		}
	}
	return nil
}

func lookupVar(e *Engine, name string) *types.Var {
	for _, p := range e.All {
		if p.PkgPath == RepoModule+"/value" {
			if o, ok := p.Types.Scope().Lookup(name).(*types.Var); ok {
				return o
			}
		}
	}
	return nil
}
