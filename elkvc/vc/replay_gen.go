package vc

func (e *Engine) replayObligation(o *Obligation) *ReplayResult {
	return nil
}
