package vc

import (
	"fmt"
	"go/ast"
	"go/types"
	"os"
	"os/exec"
	"path/filepath"
	"regexp"
	"slices"
	"sort"
	"strings"
	"sync"
	"time"
)

type FuncReport struct {
	Key        string
	Inst       string
	OutOfSubset string
	Obls       []*Obligation
	Ctx        *FnCtx
	Trusted    bool
	Ms         int64
	CaseReps   []*FuncReport // per-literal re-executions (case split); folded into Obls after discharge
}

func (e *Engine) newCtx(fi *FuncInfo, ct *Contract) *FnCtx {
	c := &FnCtx{E: e, Fn: fi, C: ct, declSet: map[string]bool{}, heapSort: map[string]string{}, heapType: map[string]types.Type{},
		typeTags: map[string]int{}, Opaque: map[string]bool{}, Inlined: map[string]bool{}, UsedContracts: map[string]bool{},
		Trusted: map[string]bool{}, safeN: map[string]int{}, paramVals: map[string]Val{}, globalsBusy: map[types.Object]bool{},
		callN: map[string]int{}, recFns: map[string]bool{}, recInfos: map[string]*recInfo{}, siteN: map[string]int{}}
	c.frames = []*inlineFrame{{fn: fi, pkg: fi.Pkg, tsubst: map[*types.TypeParam]types.Type{}}}
	c.objTy = e.contractUsesLive(ct)
	c.Monitored = map[string]bool{}
	c.namedFacts = map[string]int{}
	return c
}

// contractUsesLive: does the contract (or a spec function it names, transitively) speak about
// object types through live()?  Only then are allocations recorded in the object-type map;
// for every other function the map would be dead weight in each query.
func (e *Engine) contractUsesLive(ct *Contract) bool {
	if ct == nil {
		return false
	}
	if e.liveFns == nil {
		e.liveFns = map[string]bool{}
		for changed := true; changed; {
			changed = false
			for name, sf := range e.SpecFns {
				if e.liveFns[name] {
					continue
				}
				if strings.Contains(sf.Src, "live(") || mentionsAny(sf.Src, e.liveFns) {
					e.liveFns[name] = true
					changed = true
				}
			}
		}
	}
	srcs := []string{}
	add := func(cls []Clause) {
		for _, cl := range cls {
			srcs = append(srcs, cl.Src)
		}
	}
	add(ct.Requires)
	add(ct.Ensures)
	for _, l := range ct.Loops {
		add(l.Invariants)
	}
	for _, s := range srcs {
		if strings.Contains(s, "live(") || mentionsAny(s, e.liveFns) {
			return true
		}
	}
	return false
}

func mentionsAny(src string, names map[string]bool) bool {
	for n := range names {
		if strings.Contains(src, n+"(") {
			return true
		}
	}
	return false
}

// VerifyFunc generates the obligations of one function under contract.
// CaseFix fixes one parameter to a literal (case >= 0) or to the complement of [Lo,Hi] (Rest).
type CaseFix struct {
	Param string
	K     int
	Rest  bool
	Lo, Hi int
}

func (e *Engine) VerifyFunc(key string, targs []string) (rep *FuncReport) {
	ct := e.Contracts[key]
	if ct != nil && ct.IsLemma {
		return e.VerifyLemma(key)
	}
	if ct == nil || ct.Cases == nil {
		return e.VerifyFuncCase(key, targs, nil)
	}
	// case split by re-execution: the function is symbolically executed once per value of the
	// parameter (shifts and powers by a literal are linear), and once for all remaining values
	pn, ok := ct.Cases.Expr.(*ast.Ident)
	if !ok {
		return e.VerifyFuncCase(key, targs, nil)
	}
	var reps []*FuncReport
	for k := ct.Cases.Lo; k <= ct.Cases.Hi; k++ {
		reps = append(reps, e.VerifyFuncCase(key, targs, &CaseFix{Param: pn.Name, K: k}))
	}
	reps = append(reps, e.VerifyFuncCase(key, targs, &CaseFix{Param: pn.Name, Rest: true, Lo: ct.Cases.Lo, Hi: ct.Cases.Hi}))
	rep = reps[len(reps)-1]
	rep.CaseReps = reps[:len(reps)-1]
	return rep
}

func (e *Engine) VerifyFuncCase(key string, targs []string, cf *CaseFix) (rep *FuncReport) {
	fi := e.Funcs[key]
	ct := e.Contracts[key]
	rep = &FuncReport{Key: key, Inst: strings.Join(targs, ",")}
	if fi == nil {
		rep.OutOfSubset = "function not found in the loaded packages (renamed or removed?)"
		return rep
	}
	c := e.newCtx(fi, ct)
	rep.Ctx = c
	c.instLabel = rep.Inst
	if ct != nil {
		c.noSafety = ct.NoSafety
	}
	t0 := time.Now()
	defer func() {
		rep.Ms = time.Since(t0).Milliseconds()
		if r := recover(); r != nil {
			if u, ok := r.(unsupported); ok {
				rep.OutOfSubset = u.msg
				rep.Obls = nil
				return
			}
			panic(r)
		}
	}()
	sig := fi.Sig
	// generic instantiation
	if tps := sig.TypeParams(); tps != nil && tps.Len() > 0 {
		if len(targs) != tps.Len() {
			c.unsup(fi.Decl, "generic function needs `instantiate`")
		}
		env0 := &Env{spec: true, spkg: fi.Pkg.Types}
		for i := 0; i < tps.Len(); i++ {
			te, err := ParseSpecType(targs[i])
			if err != nil {
				c.unsup(fi.Decl, "bad type argument %s", targs[i])
			}
			c.frames[0].tsubst[tps.At(i)] = c.specType(env0, te)
		}
	}
	st := &State{pc: "true", vars: map[types.Object]Val{}, heap: map[string]string{}, epoch: 0}
	c.scanBoxed(fi.Pkg.TypesInfo, fi.Decl.Body)
	c.declConst("alloc!0", "Int")
	// addresses live in the 48-bit user address space of amd64: pointer arithmetic on them does not wrap
	c.facts = append(c.facts, "(> alloc!0 0)", "(< alloc!0 281474976710656)")
	st.alloc = "alloc!0"
	bind := func(obj types.Object, name string) {
		if obj == nil {
			return
		}
		v := c.freshVal("p_"+name, obj.Type(), st)
		if cf != nil && cf.Param == name {
			if cf.Rest {
				c.facts = append(c.facts, or(app("<", v.T, itoa(int64(cf.Lo))), app(">", v.T, itoa(int64(cf.Hi)))))
			} else {
				lit := itoa(int64(cf.K))
				if inv := c.typeInv(lit, obj.Type(), st); inv != "true" {
					// the literal may be outside the parameter's type: the case is then empty
					c.facts = append(c.facts, inv)
				}
				v = Val{T: lit, Typ: obj.Type()}
			}
		}
		c.entryPtrFacts(v, st)
		c.declareVar(st, obj, v)
		if name != "" && name != "_" {
			c.paramVals[name] = v
		}
	}
	if fi.Decl.Recv != nil && len(fi.Decl.Recv.List) > 0 {
		fld := fi.Decl.Recv.List[0]
		if len(fld.Names) > 0 {
			bind(fi.Pkg.TypesInfo.Defs[fld.Names[0]], fld.Names[0].Name)
		}
	}
	for _, fld := range fi.Decl.Type.Params.List {
		for _, nm := range fld.Names {
			bind(fi.Pkg.TypesInfo.Defs[nm], nm.Name)
		}
	}
	fr := c.frames[0]
	if fi.Decl.Type.Results != nil {
		for _, fld := range fi.Decl.Type.Results.List {
			for _, nm := range fld.Names {
				if obj, ok := fi.Pkg.TypesInfo.Defs[nm].(*types.Var); ok {
					fr.results = append(fr.results, obj)
					st.vars[obj] = c.zero(obj.Type())
				}
			}
		}
	}
	// global axioms
	for _, ax := range e.Axioms {
		if ax.PkgPath != "" && ax.PkgPath != fi.Pkg.PkgPath {
			// an axiom speaks about the functions of its own package; elsewhere it would only
			// put quantifiers into every query
			continue
		}
		var spkg *types.Package
		if p := e.All[ax.PkgPath]; p != nil {
			spkg = p.Types
		} else {
			spkg = fi.Pkg.Types
		}
		g := c.eval(&Env{st: st, spec: true, spkg: spkg}, ax.Expr)
		c.namedFacts[ax.Label] = len(c.facts)
		c.axiomFacts = append(c.axiomFacts, len(c.facts))
		c.facts = append(c.facts, axiomTrigger(g.T))
	}
	if ct != nil {
		for _, ln := range ct.Uses {
			lf := c.lemmaFact(ln)
			c.namedFacts[ln] = len(c.facts)
			c.facts = append(c.facts, lf)
		}
	}
	preEnv := &Env{st: st, spec: true, old: st, spkg: fi.Pkg.Types,
		lookup: func(n string) (Val, bool) { v, ok := c.paramVals[n]; return v, ok }}
	if ct != nil {
		for _, rq := range ct.Requires {
			g := c.eval(preEnv, rq.Expr)
			n0 := len(c.facts)
			c.assume(st, g.T)
			if len(c.facts) == n0+1 {
				c.reqFacts = append(c.reqFacts, n0)
			}
		}
		for _, tq := range ct.Typing {
			g := c.eval(preEnv, tq.Expr)
			c.assume(st, g.T)
			c.TypingUsed = append(c.TypingUsed, tq.Src)
		}
	}
	c.entry = st.clone()
	c.nEntryFacts = len(c.facts)
	c.nEntryDecls = len(c.decls)
	if ct != nil && ct.Trusted {
		rep.Trusted = true
		return rep
	}
	// vacuity: the precondition must be satisfiable
	if o := c.oblige(st, "vacuity", "requires", "false", "precondition satisfiable", false, fi.Decl); o != nil {
		o.MustFail = true
	}
	// known-finding predicates are evaluated over the entry state
	cutAt := c.cutSites(fi, ct)
	var leaves []*State // branch ends of an if statement that directly precedes a cut point
	for i, s := range fi.Decl.Body.List {
		if st.dead() {
			break
		}
		if cls := cutAt[i]; len(cls) > 0 {
			if len(leaves) == 0 {
				leaves = []*State{st}
			}
			c.doCut(st, leaves, cls, s, fi)
			leaves = nil
		}
		if ifs, ok := s.(*ast.IfStmt); ok && len(cutAt[i+1]) > 0 {
			// the paths through the if reach the cut separately: no joined heap to reason about
			leaves = c.execIfLeaves(st, ifs)
			if len(leaves) == 0 {
				st.pc = "false"
			} else {
				st.become(c.join(leaves...))
			}
			continue
		}
		c.exec(st, s)
	}
	if !st.dead() {
		var vals []Val
		for _, r := range fr.results {
			vals = append(vals, st.vars[r])
		}
		if len(vals) != sig.Results().Len() {
			if sig.Results().Len() > 0 {
				c.unsup(fi.Decl, "missing return")
			}
		}
		fr.returns = append(fr.returns, &retRec{st: st.clone(), vals: vals, afterCut: c.cutDone})
	}
	cutLo, cutHi := c.skipLo, c.skipHi
	// deferred calls run at every exit
	for _, r := range fr.returns {
		if r.afterCut {
			c.skipLo, c.skipHi = cutLo, cutHi
		} else {
			c.skipLo, c.skipHi = 0, 0
		}
		c.runDefers(r, fr)
		if r.panicking && !r.recovered && !r.st.dead() {
			// nothing stopped the panic: it leaves the function
			c.safe(r.st, "panic", "false", r.node)
			r.st.pc = "false"
		}
		// deferred closures may have assigned named results
		for i, rv := range fr.results {
			if rv != nil && rv.Name() != "" && rv.Name() != "_" && i < len(r.vals) {
				if _, ok := r.st.vars[rv]; ok && !r.st.dead() {
					r.vals[i] = c.evalObj(&Env{st: r.st}, rv, fi.Decl)
				}
			}
		}
	}
	if !c.cutDone {
		c.skipLo, c.skipHi = 0, 0
		c.finishExits(fi, ct, sig, cf, fr.returns, true)
	} else {
		// exits before the cut point see the whole path history; exits after it see the entry
		// facts, the cut assertions and what happened since
		var pre, post []*retRec
		for _, r := range fr.returns {
			if r.afterCut {
				post = append(post, r)
			} else {
				pre = append(pre, r)
			}
		}
		c.skipLo, c.skipHi = 0, 0
		c.labelSuffix = "@precut"
		c.finishExits(fi, ct, sig, cf, pre, false)
		c.labelSuffix = ""
		c.skipLo, c.skipHi = cutLo, cutHi
		c.finishExits(fi, ct, sig, cf, post, true)
	}
	rep.Obls = c.Obls
	return rep
}

// finishExits proves the contract's postconditions, exit hints and frame over the join of the
// given (live) return states.
func (c *FnCtx) finishExits(fi *FuncInfo, ct *Contract, sig *types.Signature, cf *CaseFix, returns []*retRec, cover bool) {
	var states []*State
	for _, r := range returns {
		if !r.st.dead() {
			states = append(states, r.st)
		}
	}
	if len(states) == 0 {
		// the function never returns normally here (always panics / loops): postconditions hold vacuously
		return
	}
	exit := c.join(states...)
	nres := sig.Results().Len()
	res := make([]Val, nres)
	for i := 0; i < nres; i++ {
		rt := c.subst(sig.Results().At(i).Type())
		term := ""
		for k := len(returns) - 1; k >= 0; k-- {
			r := returns[k]
			if r.st.dead() {
				continue
			}
			if term == "" {
				term = r.vals[i].T
			} else {
				term = ite(r.st.pc, r.vals[i].T, term)
			}
		}
		res[i] = Val{T: c.nameTerm("result", term, c.sortOf(rt)), Typ: rt}
	}
	if o := c.oblige(exit, "vacuity", "end", "false", "function end reachable", false, fi.Decl); o != nil {
		o.MustFail = true
	}
	if ct == nil {
		return
	}
	_, _, resn := c.paramNames(fi.Obj, ct)
	m := map[string]Val{}
	for i, r := range res {
		if i < len(resn) && resn[i] != "" && resn[i] != "_" {
			m[resn[i]] = r
		}
		m[fmt.Sprintf("ret%d", i)] = r
	}
	if nres == 1 {
		m["ret"] = res[0]
	}
	postEnv := &Env{st: exit, spec: true, old: c.entry, spkg: fi.Pkg.Types,
		lookup: func(n string) (Val, bool) {
			if v, ok := m[n]; ok {
				return v, true
			}
			v, ok := c.paramVals[n]
			return v, ok
		}}
	for _, h := range ct.ExitHints {
		g := c.eval(postEnv, h.Expr)
		c.oblige(exit, "hint", "exit:"+h.Label, g.T, h.Src, h.Try, fi.Decl)
		c.assume(exit, g.T)
	}
	for _, en := range ct.Ensures {
		if en.GhostDef {
			c.Trusted["ghost definition at "+shortKey(fi.Key)+": "+en.Src] = true
			continue
		}
		g := c.eval(postEnv, en.Expr)
		if o := c.oblige(exit, "post", en.Label, g.T, en.Src, en.Try, fi.Decl); o != nil {
			c.applyUsing(o, en)
		}
		// cover: a clause `A ==> B` must not hold merely because no verified path reaches
		// the exit with A (e.g. all such paths were pruned as out of subset)
		if be, ok := unparen(en.Expr).(*ast.BinaryExpr); ok && be.Op == tokImplies && !en.Try && cf == nil && cover {
			a := c.eval(postEnv, be.X)
			if o := c.oblige(exit, "vacuity", "cover:"+en.Label, "false", "some verified path reaches the exit with: "+en.Src, false, fi.Decl); o != nil {
				o.MustFail = true
				o.PC = and(exit.pc, a.T)
			}
		}
	}
	if ct.AssignsGiven {
		c.checkFrame(exit, ct, postEnv)
	}
}

// applyUsing: a clause with a `using` list is proved from the named lemmas and axioms only; the
// other named facts (lemmas of `uses`, package axioms) are left out of its query.
func (c *FnCtx) applyUsing(o *Obligation, cl Clause) {
	if !cl.UsingGiven {
		return
	}
	skip := append([]int{}, o.SkipExtra...)
	for name, idx := range c.namedFacts {
		if !slices.Contains(cl.Using, name) {
			skip = append(skip, idx)
		}
	}
	if !c.cutDone && len(c.C.Cuts) > 0 {
		// the cut point was not usable (see cutSites): the clause is proved from the whole context
		return
	}
	for _, u := range cl.Using {
		if _, ok := c.namedFacts[u]; !ok {
			c.unsup(nil, "clause %s: `using %s` names no lemma of `uses` and no axiom", cl.Label, u)
		}
	}
	o.SkipExtra = skip
}

// cutSites maps top-level statement indices of the function body to the cut clauses that
// apply before them.  A site `before Callee#k` names the k-th call of Callee in source order;
// it must lie in a top-level expression or assignment statement.
func (c *FnCtx) cutSites(fi *FuncInfo, ct *Contract) map[int][]Clause {
	out := map[int][]Clause{}
	if ct == nil || len(ct.Cuts) == 0 {
		return out
	}
	count := map[string]int{}
	where := map[string]int{}
	for i, s := range fi.Decl.Body.List {
		ast.Inspect(s, func(n ast.Node) bool {
			switch x := n.(type) {
			case *ast.FuncLit:
				return false
			case *ast.ReturnStmt:
				// `cut before return#k`: the k-th return statement in source order
				count["return"]++
				site := fmt.Sprintf("return#%d", count["return"])
				if n == ast.Node(s) {
					where[site] = i
				} else {
					where[site] = -1
				}
			case *ast.CallExpr:
				name := ""
				switch f := unparen(x.Fun).(type) {
				case *ast.Ident:
					name = f.Name
				case *ast.SelectorExpr:
					name = f.Sel.Name
				}
				if name != "" {
					count[name]++
					site := fmt.Sprintf("%s#%d", name, count[name])
					switch s.(type) {
					case *ast.ExprStmt, *ast.AssignStmt:
						where[site] = i
					default:
						where[site] = -1
					}
				}
			}
			return true
		})
	}
	for site, cls := range ct.Cuts {
		i, ok := where[site]
		if !ok || i < 0 {
			// the code no longer has this site (or it moved into a nested statement): verify
			// without the cut — the obligations stay the same, only harder to discharge
			c.E.Warnings = append(c.E.Warnings, fmt.Sprintf("%s: cut site %s not usable, verifying without it", c.Fn.Key, site))
			continue
		}
		out[i] = append(out[i], cls...)
	}
	return out
}

// doCut: prove the cut assertions in the current state, then forget the path: every heap cell
// and every local variable assigned anywhere in the body gets a fresh value, the facts
// collected since the entry are no longer part of later queries (facts that speak only about
// the entry state are kept), and the cut assertions are assumed of the new state.
func (c *FnCtx) doCut(st *State, leaves []*State, cls []Clause, s ast.Stmt, fi *FuncInfo) {
	if c.cutDone {
		c.unsup(s, "more than one cut point")
	}
	for k, lf := range leaves {
		for _, cl := range cls {
			g := c.eval(c.specEnvAt(lf, s.Pos()), cl.Expr)
			lbl := cl.Label
			if len(leaves) > 1 {
				lbl += fmt.Sprintf("@path%d", k+1)
			}
			if o := c.oblige(lf, "cut", lbl, g.T, cl.Src, cl.Try, s); o != nil {
				c.applyUsing(o, cl)
			}
		}
	}
	hi := len(c.facts)
	// facts about the entry state only stay usable
	entryDecl := map[string]bool{}
	var kept []string
	for _, f := range c.facts[c.nEntryFacts:hi] {
		if c.entryOnlyFact(f, entryDecl) {
			kept = append(kept, f)
		}
	}
	c.facts = append(c.facts, kept...)
	c.skipLo, c.skipHi = c.nEntryFacts, hi
	// the precondition itself is forgotten too: the cut assertion restates what is still needed
	c.skipExtra = c.reqFacts
	c.cutDone = true
	// forget the heap and the assigned locals
	c.havocAll(st)
	for _, v := range c.assignedVars(fi.Decl.Body, nil) {
		if old, ok := st.vars[v]; ok {
			if c.boxed[v] {
				continue // lives in the (forgotten) heap; its address is unchanged
			}
			st.vars[v] = c.freshVal("cut_"+v.Name(), old.Typ, st)
		}
	}
	// an address-taken local was allocated by this call: its (unchanged) address lies between
	// the entry's allocation frontier and the current one
	var boxedVars []types.Object
	for v := range st.vars {
		if c.boxed[v] {
			boxedVars = append(boxedVars, v)
		}
	}
	sort.Slice(boxedVars, func(i, j int) bool { return boxedVars[i].Pos() < boxedVars[j].Pos() })
	for _, v := range boxedVars {
		val := st.vars[v]
		c.facts = append(c.facts, app(">=", val.T, c.entry.alloc), app(">", val.T, "0"), app("<", val.T, st.alloc))
	}
	for _, cl := range cls {
		if cl.Try {
			continue // attempted only: never assumed
		}
		g := c.eval(c.specEnvAt(st, s.Pos()), cl.Expr)
		n0 := len(c.facts)
		c.assume(st, g.T)
		if len(c.facts) == n0+1 {
			// a later clause with a `using` list keeps this assumption only if it names it (cut:<label>)
			lbl := cl.Label
			if i := strings.LastIndex(lbl, "."); i >= 0 {
				lbl = lbl[i+1:]
			}
			c.namedFacts["cut_"+lbl] = n0
		}
	}
}

var bangIdent = regexp.MustCompile(`[A-Za-z_][A-Za-z0-9_.$]*![A-Za-z0-9_\-]+`)

// entryOnlyFact: every generated name the fact mentions belongs to the entry state (declared
// before the body was executed, or a heap cell of epoch 0).
func (c *FnCtx) entryOnlyFact(f string, cache map[string]bool) bool {
	if len(cache) == 0 {
		cache["\x00"] = true
		for _, d := range c.decls[:c.nEntryDecls] {
			// (declare-const NAME ...) / (declare-fun NAME ...)
			fs := strings.Fields(d)
			if len(fs) >= 2 {
				cache[fs[1]] = true
			}
		}
	}
	for _, id := range bangIdent.FindAllString(f, -1) {
		if strings.HasSuffix(id, "!e0") || cache[id] {
			continue
		}
		return false
	}
	return true
}

// entryPtrFacts: pointers passed in were allocated before the call.
func (c *FnCtx) entryPtrFacts(v Val, st *State) {
	t := c.subst(v.Typ)
	switch u := t.Underlying().(type) {
	case *types.Basic:
		if u.Kind() == types.UnsafePointer {
			c.facts = append(c.facts, app("<", v.T, "alloc!0"))
		}
	case *types.Struct:
		if isOpaqueStruct(t) {
			return
		}
		for i := 0; i < u.NumFields(); i++ {
			f := u.Field(i)
			c.entryPtrFacts(Val{T: app(c.fieldAcc(t, f.Name()), v.T), Typ: f.Type()}, st)
		}
	case *types.Interface:
		c.facts = append(c.facts, app("<", app("if_ptr", v.T), "alloc!0"))
	case *types.Pointer, *types.Map, *types.Chan:
		c.facts = append(c.facts, app("<", v.T, "alloc!0"))
	case *types.Slice:
		c.facts = append(c.facts, app("<", app("+", app("sl_ptr", v.T), app("*", fmt.Sprint(c.sizeof(t.Underlying().(*types.Slice).Elem())), app("sl_cap", v.T))), "alloc!0"))
	}
}

func (c *FnCtx) runDefers(r *retRec, fr *inlineFrame) {
	for i := len(fr.defers) - 1; i >= 0; i-- {
		d := fr.defers[i]
		if r.st.dead() {
			return
		}
		if d.lit != nil {
			c.runDeferredClosure(r, fr, d)
			continue
		}
		env := &Env{st: r.st}
		fun := unparen(d.call.Fun)
		switch f := fun.(type) {
		case *ast.SelectorExpr:
			if sel, ok := d.pkg.TypesInfo.Selections[f]; ok && sel.Kind() == types.MethodVal {
				m := sel.Obj().(*types.Func)
				recv := *d.recv
				idx := sel.Index()
				if len(idx) > 1 {
					recv = c.fieldPath(env, recv, idx[:len(idx)-1], d.call)
				}
				msig := m.Type().(*types.Signature)
				_, wantPtr := msig.Recv().Type().(*types.Pointer)
				_, havePtr := c.subst(recv.Typ).Underlying().(*types.Pointer)
				if wantPtr && !havePtr {
					recv = c.addrOf(env, f.X, d.call)
				} else if !wantPtr && havePtr {
					recv = c.deref(env, recv, d.call)
				}
				c.callFunc(env, m, &recv, d.args, d.call, nil)
				continue
			}
			if o, ok := d.pkg.TypesInfo.Uses[f.Sel].(*types.Func); ok {
				c.callFunc(env, o, nil, d.args, d.call, nil)
				continue
			}
		case *ast.Ident:
			if o, ok := d.pkg.TypesInfo.ObjectOf(f).(*types.Func); ok {
				c.callFunc(env, o, nil, d.args, d.call, nil)
				continue
			}
		}
		c.unsup(d.call, "deferred call form")
	}
}

// checkFrame: every heap key changed by the body must be covered by `assigns`.
func (c *FnCtx) checkFrame(exit *State, ct *Contract, postEnv *Env) {
	// allowed: reconstruct the state obtained from entry by havocking the assigns targets;
	// obligation: exists havoc values making it equal to exit. Implemented per key:
	// for whole-key targets nothing to check; for single locations: exit == store(entry, loc, exit[loc]).
	type allow struct {
		whole bool
		locs  []string
	}
	allowed := map[string]*allow{}
	get := func(k string) *allow {
		if allowed[k] == nil {
			allowed[k] = &allow{}
		}
		return allowed[k]
	}
	all := false
	entryEnv := &Env{st: c.entry, spec: true, old: c.entry, spkg: postEnv.spkg, lookup: func(n string) (Val, bool) { v, ok := c.paramVals[n]; return v, ok }}
	type elemRange struct {
		s    Val
		elem types.Type
	}
	var ranges []elemRange
	for _, a := range ct.Assigns {
		e := unparen(a.Expr)
		switch x := e.(type) {
		case *ast.StarExpr:
			all = true
		case *ast.Ident:
			if x.Name == "everything" {
				all = true
			}
		case *ast.CallExpr:
			id, _ := x.Fun.(*ast.Ident)
			if id == nil {
				c.unsup(nil, "assigns form")
			}
			switch id.Name {
			case "bigval":
				p := c.eval(entryEnv, x.Args[0])
				get("GH_bigval").locs = append(get("GH_bigval").locs, p.T)
			case "ghost":
				p := c.eval(entryEnv, x.Args[1])
				k := "GH_" + x.Args[0].(*ast.Ident).Name
				get(k).locs = append(get(k).locs, p.T)
			case "ghostall":
				get("GH_" + x.Args[0].(*ast.Ident).Name).whole = true
			case "elems":
				s := c.eval(entryEnv, x.Args[0])
				elem, _ := c.sliceElemType(s.Typ)
				ranges = append(ranges, elemRange{s, elem})
			case "fresh":
			default:
				c.unsup(nil, "assigns form %s", id.Name)
			}
		case *ast.SelectorExpr:
			if call, ok := unparen(x.X).(*ast.CallExpr); ok {
				if id, ok := call.Fun.(*ast.Ident); ok && id.Name == "all" {
					t := c.specType(entryEnv, call.Args[0])
					get(c.fieldKey(t, x.Sel.Name)).whole = true
					continue
				}
			}
			base := c.eval(entryEnv, x.X)
			pt, ok := c.subst(base.Typ).Underlying().(*types.Pointer)
			if !ok {
				c.unsup(nil, "assigns target must go through a pointer")
			}
			k := c.fieldKey(pt.Elem(), x.Sel.Name)
			get(k).locs = append(get(k).locs, base.T)
		}
	}
	if all {
		return
	}
	var keys []string
	for k := range c.heapSort {
		keys = append(keys, k)
	}
	sort.Strings(keys)
	for _, k := range keys {
		srt := c.heapSort[k]
		e0 := c.heapGet(c.entry, k, srt, c.heapType[k])
		e1 := c.heapGet(exit, k, srt, c.heapType[k])
		if e0 == e1 {
			continue
		}
		if strings.HasPrefix(k, "B_") {
			continue // boxes of freshly allocated interface values
		}
		a := allowed[k]
		if a != nil && a.whole {
			continue
		}
		if !strings.HasPrefix(srt, "(Array Int") {
			c.oblige(exit, "frame", k, eq(e1, e0), "global "+k+" unchanged", false, c.Fn.Decl)
			continue
		}
		// unchanged except at allowed locations, at freshly allocated addresses, and inside elems() ranges
		var exc []string
		if a != nil {
			for _, l := range a.locs {
				exc = append(exc, eq("a!f", l))
			}
		}
		for _, r := range ranges {
			match := false
			el := c.subst(r.elem)
			if _, stt, ok := c.structOf(el); ok && !isOpaqueStruct(el) && !c.isMemStruct(el) {
				for i := 0; i < stt.NumFields(); i++ {
					if c.fieldKey(el, stt.Field(i).Name()) == k {
						match = true
					}
				}
			} else if c.memKey(el) == k {
				match = true
			}
			if match {
				exc = append(exc, and(app("<=", app("sl_ptr", r.s.T), "a!f"), app("<", "a!f", app("+", app("sl_ptr", r.s.T), app("*", fmt.Sprint(c.sizeof(el)), app("sl_cap", r.s.T))))))
			}
		}
		// fresh objects, and the interior addresses (encoded as -(64*p+id)) of fresh objects
		exc = append(exc, app(">=", "a!f", "alloc!0"), app("<=", "a!f", app("-", app("*", "64", "alloc!0"))))
		goal := fmt.Sprintf("(forall ((a!f Int)) (=> (not %s) (= (select %s a!f) (select %s a!f))))", or(exc...), e1, e0)
		c.oblige(exit, "frame", k, goal, "only the locations in `assigns` change in "+k, false, c.Fn.Decl)
	}
}

// ---------------------------------------------------------------------------
// queries

var pfSym = regexp.MustCompile(`\(pf_[A-Za-z0-9_.$]+ `)

func (o *Obligation) BuildQuery(extraAssume string, negGoal bool) string {
	c := o.ctx
	var b strings.Builder
	b.WriteString("(set-logic ALL)\n")
	b.WriteString(prelude)
	for _, d := range c.decls[:o.NDecl] {
		b.WriteString(d)
		b.WriteString("\n")
	}
	var body strings.Builder
	var axioms []int
	for i, f := range c.facts[:o.NFact] {
		if i >= o.SkipLo && i < o.SkipHi {
			continue // forgotten at a cut point
		}
		if len(o.SkipExtra) > 0 && slices.Contains(o.SkipExtra, i) {
			continue
		}
		if slices.Contains(c.axiomFacts, i) {
			axioms = append(axioms, i)
			continue
		}
		body.WriteString("(assert ")
		body.WriteString(f)
		body.WriteString(")\n")
	}
	// relevance: a package axiom about abstract functions (pf_...) that nothing else in the
	// query mentions cannot contribute to the proof; leaving it out is sound (one hypothesis
	// fewer) and keeps quantifiers out of queries they have nothing to do with
	rest := body.String() + o.PC + o.Goal + extraAssume
	for _, i := range axioms {
		f := c.facts[i]
		relevant := false
		syms := pfSym.FindAllString(f, -1)
		if len(syms) == 0 {
			relevant = true
		}
		for _, s := range syms {
			if strings.Contains(rest, s) {
				relevant = true
				break
			}
		}
		if relevant {
			body.WriteString("(assert ")
			body.WriteString(f)
			body.WriteString(")\n")
		}
	}
	b.WriteString(body.String())
	if extraAssume != "" {
		for _, d := range o.xDecls {
			b.WriteString(d + "\n")
		}
	}
	b.WriteString("(assert " + o.PC + ")\n")
	if extraAssume != "" {
		b.WriteString("(assert " + extraAssume + ")\n")
	}
	if negGoal {
		b.WriteString("(assert (not " + o.Goal + "))\n")
	}
	b.WriteString("(check-sat)\n")
	return b.String()
}

type RunOpts struct {
	TimeoutS  int
	Seed      int
	Thorough  bool
	DumpDir   string
	WantModel bool
}

// Discharge runs the solvers on all obligations (in parallel).
func (e *Engine) Discharge(top []*FuncReport, opts RunOpts) {
	// case-split reports are discharged like any other and folded into their parent afterwards
	var reps []*FuncReport
	for _, r := range top {
		reps = append(reps, r)
		for _, cr := range r.CaseReps {
			// vacuity is checked on the parent only (a literal outside the parameter's type makes a case empty)
			var keep []*Obligation
			for _, o := range cr.Obls {
				if !o.MustFail {
					keep = append(keep, o)
				}
			}
			cr.Obls = keep
			reps = append(reps, cr)
		}
	}
	defer func() {
		for _, r := range top {
			e.foldCases(r)
		}
	}()
	for _, r := range reps {
		for _, o := range r.Obls {
			e.prepareFindings(o)
		}
	}
	var wg sync.WaitGroup
	sem := make(chan struct{}, 10)
	// obligations of case-split re-executions are trivial and numerous: batch them (one solver
	// process per parent obligation, queries separated by (reset)); anything not answered
	// `unsat` in the batch goes through the normal solver race below
	batched := map[*Obligation]bool{}
	for _, r := range top {
		if len(r.CaseReps) == 0 {
			continue
		}
		groups := map[string][]*Obligation{}
		var order []string
		for _, cr := range r.CaseReps {
			for _, o := range cr.Obls {
				if o.Try && !opts.Thorough || len(o.Findings) > 0 {
					continue
				}
				if _, ok := groups[o.Name]; !ok {
					order = append(order, o.Name)
				}
				groups[o.Name] = append(groups[o.Name], o)
			}
		}
		for _, name := range order {
			g := groups[name]
			for _, o := range g {
				batched[o] = true
			}
			wg.Add(1)
			go func(g []*Obligation) {
				defer wg.Done()
				sem <- struct{}{}
				defer func() { <-sem }()
				e.dischargeBatch(g, opts)
			}(g)
		}
	}
	wg.Wait()
	for _, r := range reps {
		for _, o := range r.Obls {
			if o.Try && !opts.Thorough {
				o.Status = "skipped"
				continue
			}
			if batched[o] && o.Status == "discharged" {
				continue
			}
			wg.Add(1)
			go func(o *Obligation) {
				defer wg.Done()
				sem <- struct{}{}
				defer func() { <-sem }()
				e.dischargeOne(o, opts)
			}(o)
		}
	}
	wg.Wait()
}

// dischargeBatch runs the queries of g in one z3 process, separated by (reset).
func (e *Engine) dischargeBatch(g []*Obligation, opts RunOpts) {
	var b strings.Builder
	for i, o := range g {
		if i > 0 {
			b.WriteString("(reset)\n")
		}
		q := o.BuildQuery("", true)
		o.Query = q
		b.WriteString(q)
	}
	file := filepath.Join(Scratch(), fmt.Sprintf("batch%p.smt2", g[0]))
	if err := os.WriteFile(file, []byte(b.String()), 0o644); err != nil {
		return
	}
	defer os.Remove(file)
	t0 := time.Now()
	SolverSem <- struct{}{}
	out, _ := exec.Command("z3-new", fmt.Sprintf("-T:%d", opts.TimeoutS*3), file).CombinedOutput()
	<-SolverSem
	ms := time.Since(t0).Milliseconds()
	lines := strings.Split(strings.TrimSpace(string(out)), "\n")
	if len(lines) != len(g) {
		return // some query misbehaved: every obligation falls back to the normal race
	}
	for i, o := range g {
		if strings.TrimSpace(lines[i]) == "unsat" {
			o.Status = "discharged"
			o.Result = SolverResult{Status: "unsat", Solver: "z3-new", Ms: ms / int64(len(g))}
		}
	}
}

// foldCases merges the per-literal re-executions into the parent report: an obligation is
// discharged iff it is discharged in the parent (all remaining values) and in every case.
func (e *Engine) foldCases(r *FuncReport) {
	if len(r.CaseReps) == 0 {
		return
	}
	byName := map[string]*Obligation{}
	for _, o := range r.Obls {
		byName[o.Name] = o
	}
	for _, cr := range r.CaseReps {
		if cr.OutOfSubset != "" && r.OutOfSubset == "" {
			r.OutOfSubset = cr.OutOfSubset
		}
		for _, o := range cr.Obls {
			p := byName[o.Name]
			if p == nil {
				byName[o.Name] = o
				r.Obls = append(r.Obls, o)
				continue
			}
			ms := p.Result.Ms + o.Result.Ms
			if p.Status == "discharged" && o.Status != "discharged" && o.Status != "skipped" {
				// the failing case replaces the aggregate (keeps its query, model and context for replay)
				*p = *o
			}
			p.Result.Ms = ms
		}
	}
	r.CaseReps = nil
}

// prepareFindings evaluates the `when` predicates of known findings (sequentially: it extends the context).
func (e *Engine) prepareFindings(o *Obligation) {
	c := o.ctx
	fs := e.findingsFor(o.Name)
	if len(fs) == 0 || o.MustFail {
		return
	}
	entryEnv := &Env{st: c.entry, spec: true, old: c.entry, spkg: c.Fn.Pkg.Types, lookup: func(n string) (Val, bool) { v, ok := c.paramVals[n]; return v, ok }}
	for _, f := range fs {
		k := "true"
		if f.WhenExpr != nil {
			func() {
				defer func() {
					if r := recover(); r != nil {
						if _, isU := r.(unsupported); isU {
							k = "false"
							return
						}
						panic(r)
					}
				}()
				k = c.eval(entryEnv, f.WhenExpr).T
			}()
		}
		o.findingKs = append(o.findingKs, k)
	}
	o.Findings = fs
	o.xDecls = append([]string(nil), c.decls[o.NDecl:]...)
	o.xFacts = append([]string(nil), c.facts[o.NFact:]...)
}

func (e *Engine) dischargeOne(o *Obligation, opts RunOpts) {
	if o.MustFail {
		q := o.BuildQuery("", false) // satisfiable assumptions?
		r := RunSMT(q, 2, opts.Seed, false, []string{"z3-new"})
		o.Result = r
		if r.Status == "unsat" {
			o.Status = "vacuous"
		} else {
			o.Status = "nonvacuous"
		}
		return
	}
	fs := o.Findings
	ks := o.findingKs
	excuse := ""
	if len(fs) > 0 {
		excuse = not(or(ks...))
	}
	r, q := e.decide(o, excuse, opts.TimeoutS, opts.Seed)
	if r.Status != "unsat" && r.Status != "sat" && !o.Try {
		// No solver answered within the limit.  A loaded machine must not turn a proof that normally
		// takes a few seconds into an alarm: one more attempt with four times the limit and another
		// seed.  Only more proof effort is spent; the obligation and its query are unchanged.
		r2, q2 := e.decide(o, excuse, opts.TimeoutS*4, opts.Seed+1)
		r2.Ms += r.Ms
		r, q = r2, q2
		o.Retried = true
	}
	if r.Status != "unsat" && !o.Try {
		// get a model for the report
		if r.Status == "sat" {
			rm := RunSMT(q, opts.TimeoutS, opts.Seed, true, []string{r.Solver})
			if rm.Status == "sat" {
				r = rm
			}
		}
	}
	o.Result = r
	switch {
	case r.Status == "unsat":
		o.Status = "discharged"
	case o.Try:
		o.Status = "undecided"
	default:
		o.Status = "failed"
	}
	// is each known finding still present?
	for i, f := range fs {
		_ = f
		qf := o.BuildQuery(ks[i], true)
		rf := RunSMT(qf, opts.TimeoutS, opts.Seed, false, nil)
		o.FindingPresent = append(o.FindingPresent, rf.Status != "unsat")
	}
}

// decide runs the solver race on one obligation (all cases of a case split) with the given limit and
// returns the verdict together with the query it belongs to.
func (e *Engine) decide(o *Obligation, excuse string, timeoutS int, seed int) (SolverResult, string) {
	opts := RunOpts{TimeoutS: timeoutS, Seed: seed}
	q := o.BuildQuery(excuse, true)
	o.Query = q
	var r SolverResult
	if len(o.Cases) > 0 {
		// case split: every case must be discharged; the first failing case is reported
		// one incremental solver run: (push)(assert case)(assert not goal)(check-sat)(pop) per case
		base := o.BuildQuery(excuse, false)
		base = strings.TrimSuffix(strings.TrimSpace(base), "(check-sat)")
		var b strings.Builder
		b.WriteString(base)
		for _, cs := range o.Cases {
			fmt.Fprintf(&b, "(push 1)\n(assert %s)\n(assert (not %s))\n(check-sat)\n(pop 1)\n", cs, o.Goal)
		}
		r = RunSMTMulti(b.String(), len(o.Cases), opts.TimeoutS*3, opts.Seed)
		if r.Status != "unsat" && r.FailedCase >= 0 && r.FailedCase < len(o.Cases) {
			ex := o.Cases[r.FailedCase]
			if excuse != "" {
				ex = and(ex, excuse)
			}
			q = o.BuildQuery(ex, true)
			o.Query = q
			rc := RunSMT(q, opts.TimeoutS, opts.Seed, false, nil)
			rc.Ms += r.Ms
			r = rc
		}
	} else {
		r = RunSMT(q, opts.TimeoutS, opts.Seed, false, nil)
	}
	return r, q
}
