package vc

import (
	"fmt"
	"go/types"
	"slices"
	"strings"
)

// Lemmas: facts about (recursive) specification functions that the solver cannot find by
// itself, proved once by induction on an integer parameter and then available as
// quantified facts to every contract that says `uses NAME`.
//
//	lemma psumMono(l LineInfoList, a int, b int)
//	  requires wfLines(l) && 0 <= a && a <= b && b <= len(l)
//	  ensures psum(l, a) <= psum(l, b)
//	  induction b from a
//
// Proof obligation (one SMT query): for arbitrary parameters and an arbitrary heap,
//   requires(p)  and  [ b-1 >= from  and  requires(p[b:=b-1])  ==>  ensures(p[b:=b-1]) ]   |-   ensures(p)
// together with  requires(p) |- b >= from  (the induction is well founded).

func (e *Engine) lemmaCtx(ct *Contract) (*FnCtx, *FuncInfo) {
	pkg := e.All[ct.PkgPath]
	if pkg == nil {
		for _, p := range e.All {
			if strings.HasPrefix(p.PkgPath, RepoModule) {
				pkg = p
				break
			}
		}
	}
	fi := &FuncInfo{Key: ct.Key, Pkg: pkg}
	c := e.newCtx(fi, ct)
	c.noSafety = true
	return c, fi
}

func (e *Engine) VerifyLemma(key string) (rep *FuncReport) {
	ct := e.Contracts[key]
	rep = &FuncReport{Key: key}
	c, fi := e.lemmaCtx(ct)
	rep.Ctx = c
	defer func() {
		if r := recover(); r != nil {
			if u, ok := r.(unsupported); ok {
				rep.OutOfSubset = u.msg
				rep.Obls = nil
				return
			}
			panic(r)
		}
	}()
	st := &State{pc: "true", vars: map[types.Object]Val{}, heap: map[string]string{}, epoch: 0, alloc: "alloc!0"}
	c.declConst("alloc!0", "Int")
	c.entry = st
	tenv := &Env{st: st, spec: true, spkg: fi.Pkg.Types}
	bound := map[string]Val{}
	for i, p := range ct.ParamNames {
		t := c.specType(tenv, ct.LemmaPTypes[i])
		bound[p] = c.freshVal("lp_"+p, t, st)
	}
	// two-state lemmas: old(e) reads a second, independent heap
	stOld := &State{pc: "true", vars: map[types.Object]Val{}, heap: map[string]string{}, epoch: 7, alloc: "alloc!0"}
	env := &Env{st: st, spec: true, old: stOld, spkg: fi.Pkg.Types, bound: bound}
	for _, ln := range ct.Uses {
		c.facts = append(c.facts, c.lemmaFact(ln))
	}
	for _, rq := range ct.Requires {
		c.assume(st, c.eval(env, rq.Expr).T)
	}
	if o := c.oblige(st, "vacuity", "requires", "false", "lemma hypotheses satisfiable", false, nil); o != nil {
		o.MustFail = true
	}
	if ct.IndVar != "" {
		x, ok := bound[ct.IndVar]
		if !ok {
			c.unsup(nil, "lemma %s: unknown induction variable %s", key, ct.IndVar)
		}
		from := c.eval(env, ct.IndFrom).T
		c.oblige(st, "lemma", "wellfounded", app(">=", x.T, from), "requires implies "+ct.IndVar+" >= lower bound", false, nil)
		// induction hypothesis at x-1
		b2 := map[string]Val{}
		for k, v := range bound {
			b2[k] = v
		}
		b2[ct.IndVar] = Val{T: app("-", x.T, "1"), Typ: x.Typ}
		env2 := &Env{st: st, spec: true, old: stOld, spkg: fi.Pkg.Types, bound: b2}
		var req2, ens2 []string
		for _, rq := range ct.Requires {
			req2 = append(req2, c.eval(env2, rq.Expr).T)
		}
		for _, en := range ct.Ensures {
			ens2 = append(ens2, c.eval(env2, en.Expr).T)
		}
		c.facts = append(c.facts, implies(and(append([]string{app(">=", app("-", x.T, "1"), from)}, req2...)...), and(ens2...)))
	}
	for _, en := range ct.Ensures {
		g := c.eval(env, en.Expr)
		c.oblige(st, "lemma", en.Label, g.T, en.Src, en.Try, nil)
	}
	rep.Obls = c.Obls
	return rep
}

// lemmaFact returns the quantified statement of a lemma, for use in function c.
// axiomTrigger gives a top-level universally quantified axiom an explicit multi-pattern made of
// the applications of pure (uninterpreted) functions `pf_...` that occur in it, provided they
// mention every bound variable: the axiom is then instantiated by matching ground terms
// instead of by model-based search (which makes every query of the package slower).
func axiomTrigger(t string) string {
	if !strings.HasPrefix(t, "(forall (") || strings.Contains(t, ":pattern") {
		return t
	}
	bl, n := readSexp(t[len("(forall "):])
	body := strings.TrimSpace(t[len("(forall ")+n : len(t)-1])
	var vars []string
	rest := bl[1 : len(bl)-1]
	for {
		b, k := readSexp(rest)
		if b == "" {
			break
		}
		rest = rest[k:]
		fs := strings.Fields(strings.TrimPrefix(b, "("))
		if len(fs) > 0 {
			vars = append(vars, fs[0])
		}
	}
	var pats []string
	seen := map[string]bool{}
	for i := 0; i+4 < len(body); i++ {
		if strings.HasPrefix(body[i:], "(pf_") {
			p, _ := readSexp(body[i:])
			// only applications to bound variables directly (no nested terms), of the first result
			if !seen[p] && !strings.Contains(p[1:], "(") {
				seen[p] = true
				pats = append(pats, p)
			}
		}
	}
	// greedy cover in order of appearance (the hypotheses come first): a term joins the
	// multi-pattern only when it mentions a bound variable not covered yet
	var keep []string
	covered := map[string]bool{}
	for _, p := range pats {
		adds := false
		for _, f := range strings.Fields(strings.Trim(p, "()"))[1:] {
			if slices.Contains(vars, f) && !covered[f] {
				adds = true
			}
		}
		if adds {
			keep = append(keep, p)
			for _, f := range strings.Fields(strings.Trim(p, "()"))[1:] {
				covered[f] = true
			}
		}
	}
	for _, v := range vars {
		if !covered[v] {
			return t
		}
	}
	if len(keep) == 0 {
		return t
	}
	return fmt.Sprintf("(forall %s (! %s :pattern (%s)))", bl, body, strings.Join(keep, " "))
}

func (c *FnCtx) lemmaFact(name string) string {
	ct := c.E.Contracts["lemma:"+name]
	if ct == nil {
		c.unsup(nil, "unknown lemma %s", name)
	}
	pkg := c.Fn.Pkg.Types
	if p := c.E.All[ct.PkgPath]; p != nil {
		pkg = p.Types
	}
	c.nfresh++
	id := c.nfresh
	info := &recInfo{prefix: fmt.Sprintf("hq!%d!", id)}
	st := &State{pc: "true", vars: map[types.Object]Val{}, heap: map[string]string{}, epoch: -3, alloc: "0", hparam: info}
	tenv := &Env{st: st, spec: true, spkg: pkg}
	bound := map[string]Val{}
	var binders []string
	var guards []string
	for i, p := range ct.ParamNames {
		t := c.specType(tenv, ct.LemmaPTypes[i])
		n := fmt.Sprintf("lq!%d!%s", id, p)
		binders = append(binders, fmt.Sprintf("(%s %s)", n, c.sortOf(t)))
		bound[p] = Val{T: n, Typ: t}
		if inv := c.typeInv(n, t, st); inv != "true" {
			guards = append(guards, inv)
		}
	}
	infoOld := &recInfo{prefix: fmt.Sprintf("hqo!%d!", id)}
	stOld := &State{pc: "true", vars: map[types.Object]Val{}, heap: map[string]string{}, epoch: -3, alloc: "0", hparam: infoOld}
	env := &Env{st: st, spec: true, old: stOld, spkg: pkg, bound: bound}
	nf := len(c.facts)
	c.noNaming++
	defer func() { c.noNaming-- }()
	var req, ens []string
	for _, rq := range ct.Requires {
		req = append(req, c.eval(env, rq.Expr).T)
	}
	for _, en := range ct.Ensures {
		if en.Try {
			continue
		}
		ens = append(ens, c.eval(env, en.Expr).T)
	}
	// type facts produced while evaluating (they mention the bound variables) become guards
	var typing []string
	for _, f := range c.facts[nf:] {
		if strings.Contains(f, fmt.Sprintf("!%d!", id)) {
			typing = append(typing, f)
		}
	}
	c.facts = c.facts[:nf]
	for i, k := range info.keys {
		binders = append(binders, fmt.Sprintf("(%s %s)", info.prefix+sanitize(k), info.sorts[i]))
	}
	for i, k := range infoOld.keys {
		binders = append(binders, fmt.Sprintf("(%s %s)", infoOld.prefix+sanitize(k), infoOld.sorts[i]))
	}
	// (typing facts of memory reads are true of every well-typed heap; the quantified heap
	// parameters range over all arrays, so they stay hypotheses here)
	// Typing facts of the memory cells the lemma reads are NOT kept as hypotheses: cells read
	// under quantifiers carry no typing facts at the use site, so the guarded lemma would never
	// apply.  The lemma is thereby assumed for ill-typed memory too, which no execution has.
	_ = typing
	// one quantified fact per `ensures` clause, each triggered by the recursive-function
	// applications of its own conclusion (a single multi-pattern over all conclusions would
	// need every one of those terms to be present at the use site)
	hyp := and(req...)
	var out []string
	for _, concl := range ens {
		body := implies(and(append(append([]string{}, guards...), req...)...), concl)
		var pats []string
		seen := map[string]bool{}
		collect := func(text, prefix string) {
			for i := 0; i+len(prefix) < len(text); i++ {
				if strings.HasPrefix(text[i:], prefix) {
					t, _ := readSexp(text[i:])
					if !seen[t] && !strings.Contains(t, "!q") { // no variables of nested quantifiers
						seen[t] = true
						pats = append(pats, t)
					}
				}
			}
		}
		covered := func() bool {
			for _, v := range bound {
				ok := false
				for _, p := range pats {
					if strings.Contains(p, v.T) {
						ok = true
					}
				}
				if !ok {
					return false
				}
			}
			return true
		}
		collect(concl, "(sf_")
		if !covered() {
			collect(hyp, "(sf_")
		}
		if !covered() {
			collect(concl, "(eaddr")
		}
		if !covered() {
			collect(hyp, "(eaddr")
		}
		if !covered() {
			pats = nil // no usable trigger: leave instantiation to the solver
		}
		if len(pats) > 0 {
			out = append(out, fmt.Sprintf("(forall (%s) (! %s :pattern (%s)))", strings.Join(binders, " "), body, strings.Join(pats, " ")))
		} else {
			out = append(out, fmt.Sprintf("(forall (%s) %s)", strings.Join(binders, " "), body))
		}
	}
	return and(out...)
}
