package vc

import (
	"fmt"
	"go/ast"
	"go/token"
	"go/types"
)

func (c *FnCtx) execBlock(st *State, stmts []ast.Stmt) {
	for _, s := range stmts {
		if st.dead() {
			return
		}
		c.exec(st, s)
	}
}

func (c *FnCtx) exec(st *State, s ast.Stmt) {
	if st.dead() {
		return
	}
	if c.C != nil && c.C.Partial && len(c.frames) == 1 {
		// `partial` contracts: a statement outside the verified subset ends the path; the
		// pruned paths are listed in the evidence and nothing is claimed about them
		savedLoops, savedFrames := c.loops, c.frames
		defer func() {
			if r := recover(); r != nil {
				if u, ok := r.(unsupported); ok {
					c.Pruned = append(c.Pruned, u.msg)
					st.pc = "false"
					c.loops, c.frames = savedLoops, savedFrames
					return
				}
				panic(r)
			}
		}()
	}
	env := &Env{st: st}
	switch x := s.(type) {
	case *ast.BlockStmt:
		c.execBlock(st, x.List)
	case *ast.ExprStmt:
		c.eval(env, x.X)
	case *ast.EmptyStmt:
	case *ast.AssignStmt:
		c.execAssign(st, x)
	case *ast.IncDecStmt:
		v := c.eval(env, x.X)
		op := token.ADD
		if x.Tok == token.DEC {
			op = token.SUB
		}
		r := c.binop(env, op, v, Val{T: "1", Typ: v.Typ}, x)
		c.assign(env, x.X, r, x)
	case *ast.DeclStmt:
		gd, ok := x.Decl.(*ast.GenDecl)
		if !ok {
			c.unsup(x, "declaration")
		}
		if gd.Tok == token.CONST || gd.Tok == token.TYPE {
			return
		}
		for _, sp := range gd.Specs {
			vs := sp.(*ast.ValueSpec)
			if len(vs.Values) == 0 {
				for _, n := range vs.Names {
					obj := c.info().Defs[n]
					if obj != nil {
						c.declareVar(st, obj, c.zero(obj.Type()))
					}
				}
				continue
			}
			if len(vs.Values) == len(vs.Names) {
				for i, n := range vs.Names {
					v := c.eval(env, vs.Values[i])
					if obj := c.info().Defs[n]; obj != nil {
						c.declareVar(st, obj, c.assignConv(env, v, obj.Type()))
					}
				}
				continue
			}
			v := c.eval(env, vs.Values[0])
			for i, n := range vs.Names {
				if obj := c.info().Defs[n]; obj != nil && i < len(v.Tuple) {
					c.declareVar(st, obj, c.assignConv(env, v.Tuple[i], obj.Type()))
				}
			}
		}
	case *ast.IfStmt:
		c.execIf(st, x)
	case *ast.ForStmt:
		c.execFor(st, x, "")
	case *ast.RangeStmt:
		c.execRange(st, x, "")
	case *ast.LabeledStmt:
		switch y := x.Stmt.(type) {
		case *ast.ForStmt:
			c.execFor(st, y, x.Label.Name)
		case *ast.RangeStmt:
			c.execRange(st, y, x.Label.Name)
		case *ast.SwitchStmt:
			// `L: switch … { … break L … }`
			c.switchLabel = x.Label.Name
			c.execSwitch(st, y)
		default:
			c.exec(st, x.Stmt)
		}
	case *ast.SwitchStmt:
		c.execSwitch(st, x)
	case *ast.TypeSwitchStmt:
		c.execTypeSwitch(st, x)
	case *ast.ReturnStmt:
		c.execReturn(st, x)
	case *ast.BranchStmt:
		c.execBranch(st, x)
	case *ast.DeferStmt:
		c.execDefer(st, x)
	case *ast.GoStmt:
		c.unsup(x, "go statement (concurrency is outside the verified subset)")
	case *ast.SendStmt:
		c.execSend(st, x)
	case *ast.SelectStmt:
		c.execSelect(st, x)
	default:
		c.unsup(s, "statement %T", s)
	}
}

func (c *FnCtx) execAssign(st *State, x *ast.AssignStmt) {
	env := &Env{st: st}
	if x.Tok != token.ASSIGN && x.Tok != token.DEFINE {
		// op=
		ops := map[token.Token]token.Token{token.ADD_ASSIGN: token.ADD, token.SUB_ASSIGN: token.SUB, token.MUL_ASSIGN: token.MUL,
			token.QUO_ASSIGN: token.QUO, token.REM_ASSIGN: token.REM, token.AND_ASSIGN: token.AND, token.OR_ASSIGN: token.OR,
			token.XOR_ASSIGN: token.XOR, token.SHL_ASSIGN: token.SHL, token.SHR_ASSIGN: token.SHR, token.AND_NOT_ASSIGN: token.AND_NOT}
		op, ok := ops[x.Tok]
		if !ok {
			c.unsup(x, "assignment operator %s", x.Tok)
		}
		l := c.eval(env, x.Lhs[0])
		r := c.eval(env, x.Rhs[0])
		if b, ok := c.subst(r.Typ).(*types.Basic); ok && b.Info()&types.IsUntyped != 0 && op != token.SHL && op != token.SHR {
			r = c.assignConv(env, r, l.Typ)
		}
		c.assign(env, x.Lhs[0], c.binop(env, op, l, r, x), x)
		return
	}
	var vals []Val
	if len(x.Rhs) == 1 && len(x.Lhs) > 1 {
		// tuple assignment: call, type assertion, map index, channel receive
		switch r := unparen(x.Rhs[0]).(type) {
		case *ast.TypeAssertExpr:
			v, ok := c.evalTypeAssert(env, r, true)
			vals = []Val{v, boolVal(ok)}
		case *ast.IndexExpr:
			base := c.eval(env, r.X)
			idx := c.eval(env, r.Index)
			mt, isMap := c.subst(base.Typ).Underlying().(*types.Map)
			if !isMap {
				c.unsup(x, "comma-ok on non-map index")
			}
			v, ok := c.mapGet(env, base, idx, mt)
			vals = []Val{v, boolVal(ok)}
		case *ast.UnaryExpr:
			if r.Op != token.ARROW {
				c.unsup(x, "comma-ok form")
			}
			v, ok := c.chanRecv(st, c.eval(env, r.X), x)
			vals = []Val{v, boolVal(ok)}
		default:
			v := c.eval(env, x.Rhs[0])
			if len(v.Tuple) != len(x.Lhs) {
				c.unsup(x, "tuple assignment arity (%d values for %d targets)", len(v.Tuple), len(x.Lhs))
			}
			vals = v.Tuple
		}
	} else {
		for _, r := range x.Rhs {
			vals = append(vals, c.eval(env, r))
		}
	}
	for i, l := range x.Lhs {
		if x.Tok == token.DEFINE {
			if id, ok := l.(*ast.Ident); ok {
				if id.Name == "_" {
					continue
				}
				if obj := c.info().Defs[id]; obj != nil {
					c.declareVar(st, obj, c.assignConv(env, vals[i], obj.Type()))
					continue
				}
			}
		}
		c.assign(env, l, vals[i], x)
	}
}

// assign stores v into the location denoted by lhs.
func (c *FnCtx) assign(env *Env, lhs ast.Expr, v Val, n ast.Node) {
	st := env.st
	lhs = unparen(lhs)
	switch l := lhs.(type) {
	case *ast.Ident:
		if l.Name == "_" {
			return
		}
		obj := c.info().ObjectOf(l)
		vr, ok := obj.(*types.Var)
		if !ok {
			c.unsup(n, "assignment to %s", l.Name)
		}
		v = c.assignConv(env, v, vr.Type())
		if c.boxed[vr] {
			if cell, ok := st.vars[vr]; ok {
				c.storeTo(env, cell.T, vr.Type(), v.T)
				return
			}
		}
		if _, isLocal := st.vars[vr]; isLocal || !(vr.Pkg() != nil && vr.Parent() == vr.Pkg().Scope()) {
			st.vars[vr] = v
			return
		}
		key := "G_" + sanitize(vr.Pkg().Path()+"."+vr.Name())
		c.heapGet(st, key, c.sortOf(vr.Type()), vr.Type())
		c.heapSet(st, key, v.T)
	case *ast.SelectorExpr:
		sel, ok := c.info().Selections[l]
		if !ok || sel.Kind() != types.FieldVal {
			// qualified package variable
			if obj, ok := c.info().Uses[l.Sel].(*types.Var); ok && !obj.IsField() {
				v = c.assignConv(env, v, obj.Type())
				key := "G_" + sanitize(obj.Pkg().Path()+"."+obj.Name())
				c.heapGet(st, key, c.sortOf(obj.Type()), obj.Type())
				c.heapSet(st, key, v.T)
				return
			}
			c.unsup(n, "assignment to selector")
		}
		c.assignFieldPath(env, l.X, sel.Index(), v, n)
	case *ast.IndexExpr:
		base := c.eval(env, l.X)
		idx := c.eval(env, l.Index)
		bt := c.subst(base.Typ)
		switch u := bt.Underlying().(type) {
		case *types.Slice:
			v = c.assignConv(env, v, u.Elem())
			c.safe(st, "index", and(app("<=", "0", idx.T), app("<", idx.T, app("sl_len", base.T))), n)
			c.storeTo(env, c.elemAddr(app("sl_ptr", base.T), idx.T, u.Elem()), u.Elem(), v.T)
		case *types.Map:
			v = c.assignConv(env, v, u.Elem())
			c.mapSet(env, base, idx, v, u, n)
		case *types.Array:
			v = c.assignConv(env, v, u.Elem())
			c.safe(st, "index", and(app("<=", "0", idx.T), app("<", idx.T, fmt.Sprint(u.Len()))), n)
			c.assign(env, l.X, Val{T: app("store", base.T, idx.T, v.T), Typ: base.Typ}, n)
		case *types.Pointer:
			c.unsup(n, "index assignment through array pointer")
		default:
			c.unsup(n, "index assignment on %s", bt)
		}
	case *ast.StarExpr:
		p := c.eval(env, l.X)
		pt, ok := c.subst(p.Typ).Underlying().(*types.Pointer)
		if !ok {
			c.unsup(n, "store through non-pointer")
		}
		v = c.assignConv(env, v, pt.Elem())
		c.safe(st, "nil", not(eq(p.T, "0")), n)
		c.rawGuard(env, p.T, pt.Elem(), n)
		c.storeThrough(env, p.T, pt.Elem(), v.T, n)
	default:
		c.unsup(n, "assignment target %T", lhs)
	}
}

// storeThrough writes *p = v where p may be an interior pointer.
func (c *FnCtx) storeThrough(env *Env, p string, t types.Type, v string, n ast.Node) {
	c.storeTo(env, p, t, v)
}

// assignFieldPath performs base.path = v.
func (c *FnCtx) assignFieldPath(env *Env, baseExpr ast.Expr, index []int, v Val, n ast.Node) {
	base := c.eval(env, baseExpr)
	// walk to find the last pointer on the path
	type step struct {
		val Val
		f   *types.Var
		t   types.Type // struct type owning f
		ptr bool
	}
	var steps []step
	cur := base
	for _, i := range index {
		t := c.subst(cur.Typ)
		if pt, ok := t.Underlying().(*types.Pointer); ok {
			_, st, ok := c.structOf(pt.Elem())
			if !ok {
				c.unsup(n, "field assignment on non-struct pointer")
			}
			f := st.Field(i)
			steps = append(steps, step{cur, f, pt.Elem(), true})
			c.safe(env.st, "nil", not(eq(cur.T, "0")), n)
			cur = c.readField(env.st, cur.T, pt.Elem(), f)
		} else {
			_, st, ok := c.structOf(t)
			if !ok {
				c.unsup(n, "field assignment on %s", t)
			}
			f := st.Field(i)
			steps = append(steps, step{cur, f, t, false})
			cur = Val{T: app(c.fieldAcc(t, f.Name()), cur.T), Typ: f.Type()}
		}
	}
	last := steps[len(steps)-1]
	nv := c.assignConv(env, v, last.f.Type())
	// propagate updates backwards until a pointer step (heap write) or the base variable
	for k := len(steps) - 1; k >= 0; k-- {
		s := steps[k]
		if s.ptr {
			if _, stt, ok := c.structOf(s.t); ok {
				c.guardedAccess(env, s.val.T, s.t, stt, s.f, true, n)
			}
			c.writeField(env.st, s.val.T, s.t, s.f, nv.T)
			return
		}
		nv = Val{T: c.structUpdate(s.val, s.t, s.f, nv.T), Typ: s.t}
	}
	// base was a struct value: assign back
	c.assign(env, baseExpr, Val{T: nv.T, Typ: base.Typ}, n)
}

func (c *FnCtx) structUpdate(sv Val, t types.Type, f *types.Var, nv string) string {
	_, st, _ := c.structOf(t)
	name := c.sortOf(t)
	var fs []string
	for i := 0; i < st.NumFields(); i++ {
		g := st.Field(i)
		if g == f || g.Name() == f.Name() {
			fs = append(fs, nv)
		} else {
			fs = append(fs, app(c.fieldAcc(t, g.Name()), sv.T))
		}
	}
	return app("mk_"+name, fs...)
}

func (c *FnCtx) execIf(st *State, x *ast.IfStmt) {
	if x.Init != nil {
		c.exec(st, x.Init)
	}
	cond := c.eval(&Env{st: st}, x.Cond)
	a, b := c.split(st, cond.T)
	c.execBlock(a, x.Body.List)
	if x.Else != nil {
		c.exec(b, x.Else)
	}
	st.become(c.join(a, b))
}

// execIfLeaves executes an if / else-if chain without joining: it returns the live states at the
// ends of its branches (used before a cut point, where each path proves the cut assertion on
// its own instead of over a joined heap).
func (c *FnCtx) execIfLeaves(st *State, x *ast.IfStmt) []*State {
	if x.Init != nil {
		c.exec(st, x.Init)
	}
	cond := c.eval(&Env{st: st}, x.Cond)
	a, b := c.split(st, cond.T)
	c.execBlock(a, x.Body.List)
	var out []*State
	if !a.dead() {
		out = append(out, a)
	}
	switch e := x.Else.(type) {
	case nil:
		if !b.dead() {
			out = append(out, b)
		}
	case *ast.IfStmt:
		out = append(out, c.execIfLeaves(b, e)...)
	default:
		c.exec(b, e)
		if !b.dead() {
			out = append(out, b)
		}
	}
	return out
}

func (c *FnCtx) execSwitch(st *State, x *ast.SwitchStmt) {
	if x.Init != nil {
		c.exec(st, x.Init)
	}
	env := &Env{st: st}
	var tag *Val
	if x.Tag != nil {
		v := c.eval(env, x.Tag)
		tag = &v
	}
	lf := &loopFrame{label: "switch", alias: c.switchLabel}
	c.switchLabel = ""
	c.loops = append(c.loops, lf)
	var outs []*State
	rest := st.clone()
	var deflt *ast.CaseClause
	var carry *State // state falling through from the previous clause
	fallsThrough := func(body []ast.Stmt) ([]ast.Stmt, bool) {
		if n := len(body); n > 0 {
			if b, ok := body[n-1].(*ast.BranchStmt); ok && b.Tok == token.FALLTHROUGH {
				return body[:n-1], true
			}
		}
		return body, false
	}
	for i, cc := range x.Body.List {
		cl := cc.(*ast.CaseClause)
		if cl.List == nil {
			if _, ft := fallsThrough(cl.Body); ft || (carry != nil && i != len(x.Body.List)-1) {
				c.unsup(x, "fallthrough out of a default clause, or into one that is not the last clause")
			}
			deflt = cl
			continue
		}
		var conds []string
		for _, e := range cl.List {
			v := c.eval(&Env{st: rest}, e)
			if tag != nil {
				conds = append(conds, c.binop(&Env{st: rest}, token.EQL, *tag, v, e).T)
			} else {
				conds = append(conds, v.T)
			}
		}
		a, b := c.split(rest, or(conds...))
		if carry != nil {
			// the previous clause fell through: its end state enters this body as well
			a.become(c.join(a, carry))
			carry = nil
		}
		body, ft := fallsThrough(cl.Body)
		c.execCaseBody(a, body, x)
		if ft {
			carry = a
		} else {
			outs = append(outs, a)
		}
		rest = b
	}
	if carry != nil {
		// only reachable when the last clause is `default` and the clause before it fell through
		if deflt == nil || x.Body.List[len(x.Body.List)-1] != ast.Stmt(deflt) {
			c.unsup(x, "fallthrough in the last clause")
		}
		rest.become(c.join(rest, carry))
	}
	if deflt != nil {
		c.execCaseBody(rest, deflt.Body, x)
	}
	outs = append(outs, rest)
	c.loops = c.loops[:len(c.loops)-1]
	outs = append(outs, lf.breaks...)
	if len(lf.continues) > 0 {
		// continue inside switch belongs to the enclosing loop
		if len(c.loops) == 0 {
			c.unsup(x, "continue outside loop")
		}
		c.loops[len(c.loops)-1].continues = append(c.loops[len(c.loops)-1].continues, lf.continues...)
	}
	st.become(c.join(outs...))
}

func (c *FnCtx) execCaseBody(st *State, body []ast.Stmt, n ast.Node) {
	for _, s := range body {
		if b, ok := s.(*ast.BranchStmt); ok && b.Tok == token.FALLTHROUGH {
			c.unsup(n, "fallthrough")
		}
	}
	c.execBlock(st, body)
}

func (c *FnCtx) execTypeSwitch(st *State, x *ast.TypeSwitchStmt) {
	if x.Init != nil {
		c.exec(st, x.Init)
	}
	env := &Env{st: st}
	var ta *ast.TypeAssertExpr
	var bind *ast.Ident
	switch a := x.Assign.(type) {
	case *ast.ExprStmt:
		ta = unparen(a.X).(*ast.TypeAssertExpr)
	case *ast.AssignStmt:
		ta = unparen(a.Rhs[0]).(*ast.TypeAssertExpr)
		bind = a.Lhs[0].(*ast.Ident)
	}
	_ = bind
	v := c.eval(env, ta.X)
	if _, ok := c.subst(v.Typ).Underlying().(*types.Interface); !ok {
		c.unsup(x, "type switch on non-interface")
	}
	lf := &loopFrame{label: "switch"}
	c.loops = append(c.loops, lf)
	var outs []*State
	rest := st.clone()
	var deflt *ast.CaseClause
	for _, cc := range x.Body.List {
		cl := cc.(*ast.CaseClause)
		if cl.List == nil {
			deflt = cl
			continue
		}
		var conds []string
		var single types.Type
		for _, e := range cl.List {
			if id, ok := e.(*ast.Ident); ok && id.Name == "nil" {
				conds = append(conds, eq(app("if_tab", v.T), "0"))
				continue
			}
			t := c.typeOf(e)
			single = t
			if _, isI := t.Underlying().(*types.Interface); isI {
				conds = append(conds, c.implementsPred(v, t))
			} else {
				conds = append(conds, eq(app("if_tab", v.T), c.typeTag(t)))
			}
		}
		a, b := c.split(rest, or(conds...))
		if obj := c.info().Implicits[cl]; obj != nil {
			if len(cl.List) == 1 && single != nil {
				if _, isI := single.Underlying().(*types.Interface); isI {
					a.vars[obj] = Val{T: v.T, Typ: single}
				} else {
					a.vars[obj] = c.unbox(&Env{st: a}, v, single)
				}
			} else {
				a.vars[obj] = v
			}
		}
		c.execCaseBody(a, cl.Body, x)
		outs = append(outs, a)
		rest = b
	}
	if deflt != nil {
		if obj := c.info().Implicits[deflt]; obj != nil {
			rest.vars[obj] = v
		}
		c.execCaseBody(rest, deflt.Body, x)
	}
	outs = append(outs, rest)
	c.loops = c.loops[:len(c.loops)-1]
	outs = append(outs, lf.breaks...)
	if len(lf.continues) > 0 {
		if len(c.loops) == 0 {
			c.unsup(x, "continue outside loop")
		}
		c.loops[len(c.loops)-1].continues = append(c.loops[len(c.loops)-1].continues, lf.continues...)
	}
	st.become(c.join(outs...))
}

func (c *FnCtx) execBranch(st *State, x *ast.BranchStmt) {
	switch x.Tok {
	case token.BREAK:
		var target *loopFrame
		if x.Label != nil {
			for i := len(c.loops) - 1; i >= 0; i-- {
				if c.loops[i].label == x.Label.Name || (c.loops[i].alias != "" && c.loops[i].alias == x.Label.Name) {
					target = c.loops[i]
					break
				}
			}
		} else if len(c.loops) > 0 {
			target = c.loops[len(c.loops)-1]
		}
		if target == nil {
			c.unsup(x, "break target")
		}
		target.breaks = append(target.breaks, st.clone())
		st.pc = "false"
	case token.CONTINUE:
		var target *loopFrame
		if x.Label != nil {
			for i := len(c.loops) - 1; i >= 0; i-- {
				if c.loops[i].label == x.Label.Name {
					target = c.loops[i]
				}
			}
		} else {
			for i := len(c.loops) - 1; i >= 0; i-- {
				target = c.loops[i]
				break
			}
		}
		if target == nil {
			c.unsup(x, "continue target")
		}
		target.continues = append(target.continues, st.clone())
		st.pc = "false"
	default:
		c.unsup(x, "branch %s", x.Tok)
	}
}

func (c *FnCtx) execReturn(st *State, x *ast.ReturnStmt) {
	fr := c.frame()
	env := &Env{st: st}
	var vals []Val
	sig := fr.fn.Sig
	nres := 0
	if sig != nil {
		nres = sig.Results().Len()
	}
	if len(x.Results) == 0 {
		for _, r := range fr.results {
			vals = append(vals, st.vars[r])
		}
	} else if len(x.Results) == 1 && nres > 1 {
		v := c.eval(env, x.Results[0])
		vals = v.Tuple
	} else {
		for _, r := range x.Results {
			vals = append(vals, c.eval(env, r))
		}
	}
	for i := range vals {
		if sig != nil && i < nres {
			vals[i] = c.assignConv(env, vals[i], sig.Results().At(i).Type())
		}
	}
	// named results are assigned by return
	for i, r := range fr.results {
		if i < len(vals) && r != nil {
			st.vars[r] = vals[i]
		}
	}
	fr.returns = append(fr.returns, &retRec{st: st.clone(), vals: vals, afterCut: c.cutDone})
	st.pc = "false"
}

func (c *FnCtx) execDefer(st *State, x *ast.DeferStmt) {
	if len(c.loops) > 0 {
		c.unsup(x, "defer inside loop")
	}
	// arguments are evaluated now; the call runs at function exit
	env := &Env{st: st}
	d := deferRec{call: x.Call, pkg: c.pkg()}
	if fl, ok := unparen(x.Call.Fun).(*ast.FuncLit); ok {
		if len(c.frames) > 1 {
			c.unsup(x, "deferred closure inside an inlined callee")
		}
		d.lit = fl
		c.frame().defers = append(c.frame().defers, d)
		return
	}
	for _, a := range x.Call.Args {
		d.args = append(d.args, c.eval(env, a))
	}
	if sel, ok := unparen(x.Call.Fun).(*ast.SelectorExpr); ok {
		if s, ok := c.info().Selections[sel]; ok && s.Kind() == types.MethodVal {
			rv := c.eval(env, sel.X)
			d.recv = &rv
		}
	}
	c.frame().defers = append(c.frame().defers, d)
}

// ---------------------------------------------------------------------------
// loops

func (c *FnCtx) loopSpec() (*LoopSpec, int) {
	if len(c.frames) > 1 {
		return nil, 0
	}
	c.loopN++
	if c.C == nil {
		return nil, c.loopN
	}
	if ls := c.C.Loops[c.loopN]; ls != nil {
		return ls, c.loopN
	}
	return c.C.Loops[0], c.loopN // `loop all` default, if any
}

func (c *FnCtx) execFor(st *State, x *ast.ForStmt, label string) {
	if len(c.frames) > 1 {
		c.unsup(x, "loop inside inlined callee %s (give it a contract)", c.frame().fn.Key)
	}
	ls, ord := c.loopSpec()
	if x.Init != nil {
		c.exec(st, x.Init)
	}
	c.loopCore(st, ls, ord, x, x.Body, label,
		func(s *State) string {
			if x.Cond == nil {
				return "true"
			}
			return c.eval(&Env{st: s}, x.Cond).T
		},
		func(s *State) {},
		func(s *State) {
			if x.Post != nil {
				c.exec(s, x.Post)
			}
		}, nil)
}

func (c *FnCtx) execRange(st *State, x *ast.RangeStmt, label string) {
	if len(c.frames) > 1 {
		c.unsup(x, "loop inside inlined callee %s (give it a contract)", c.frame().fn.Key)
	}
	ls, ord := c.loopSpec()
	env := &Env{st: st}
	coll := c.eval(env, x.X)
	ct := c.subst(coll.Typ)
	var length string
	var elemT types.Type
	kind := ""
	switch u := ct.Underlying().(type) {
	case *types.Slice:
		length = app("sl_len", coll.T)
		elemT = u.Elem()
		kind = "slice"
	case *types.Basic:
		if u.Info()&types.IsInteger != 0 {
			length = coll.T
			kind = "int"
		} else {
			c.unsup(x, "range over %s", ct)
		}
	case *types.Map:
		kind = "map"
	default:
		c.unsup(x, "range over %s", ct)
	}
	if kind == "map" {
		c.execRangeMap(st, x, ls, ord, label, coll, ct.Underlying().(*types.Map))
		return
	}
	// hidden index
	idxObj := types.NewVar(x.Pos(), c.pkg().Types, fmt.Sprintf("range$%d", ord), types.Typ[types.Int])
	st.vars[idxObj] = Val{T: "0", Typ: types.Typ[types.Int]}
	var keyObj, valObj *types.Var
	bindKV := func(s *State) {
		iv := s.vars[idxObj]
		if x.Key != nil {
			if id, ok := x.Key.(*ast.Ident); ok && id.Name != "_" {
				if x.Tok == token.DEFINE {
					keyObj, _ = c.info().Defs[id].(*types.Var)
					if keyObj != nil {
						c.declareVar(s, keyObj, Val{T: iv.T, Typ: keyObj.Type()})
					}
				} else {
					c.assign(&Env{st: s}, x.Key, iv, x)
				}
			}
		}
		if x.Value != nil && kind == "slice" {
			if id, ok := x.Value.(*ast.Ident); ok && id.Name != "_" {
				ev := c.loadFrom(&Env{st: s}, c.elemAddr(app("sl_ptr", coll.T), iv.T, elemT), elemT)
				if x.Tok == token.DEFINE {
					valObj, _ = c.info().Defs[id].(*types.Var)
					if valObj != nil {
						c.declareVar(s, valObj, ev)
					}
				} else {
					c.assign(&Env{st: s}, x.Value, ev, x)
				}
			}
		}
	}
	extra := func(s *State) string {
		iv := s.vars[idxObj]
		return and(app("<=", "0", iv.T), app("<=", iv.T, length))
	}
	c.loopCore(st, ls, ord, x, x.Body, label,
		func(s *State) string { return app("<", s.vars[idxObj].T, length) },
		bindKV,
		func(s *State) {
			iv := s.vars[idxObj]
			s.vars[idxObj] = Val{T: app("+", iv.T, "1"), Typ: iv.Typ}
		}, &rangeInfo{idx: idxObj, extraInv: extra, x: x})
}

type rangeInfo struct {
	idx      *types.Var
	extraInv func(s *State) string
	x        *ast.RangeStmt
}

func (c *FnCtx) execRangeMap(st *State, x *ast.RangeStmt, ls *LoopSpec, ord int, label string, coll Val, mt *types.Map) {
	// iteration order is arbitrary: each iteration sees an arbitrary present key
	c.loopCore(st, ls, ord, x, x.Body, label,
		func(s *State) string {
			g := c.fresh("mapiter")
			c.declConst(g, "Bool")
			return g
		},
		func(s *State) {
			env := &Env{st: s}
			k := c.freshVal("mk", mt.Key(), s)
			_, ok := c.mapGet(env, coll, k, mt)
			c.assume(s, ok)
			if x.Key != nil {
				if id, isId := x.Key.(*ast.Ident); isId && id.Name != "_" {
					if x.Tok == token.DEFINE {
						if o := c.info().Defs[id]; o != nil {
							s.vars[o] = k
						}
					} else {
						c.assign(env, x.Key, k, x)
					}
				}
			}
			if x.Value != nil {
				if id, isId := x.Value.(*ast.Ident); isId && id.Name != "_" {
					v, _ := c.mapGet(env, coll, k, mt)
					if x.Tok == token.DEFINE {
						if o := c.info().Defs[id]; o != nil {
							s.vars[o] = v
						}
					} else {
						c.assign(env, x.Value, v, x)
					}
				}
			}
		},
		func(s *State) {}, nil)
}

// loopCore: invariant-based loop rule.
func (c *FnCtx) loopCore(st *State, ls *LoopSpec, ord int, node ast.Node, body *ast.BlockStmt, label string,
	guard func(*State) string, pre func(*State), post func(*State), ri *rangeInfo) {

	lname := fmt.Sprintf("loop%d", ord)
	specEnv := func(s *State) *Env {
		env := c.specEnvAt(s, body.Lbrace)
		if ri != nil {
			// `range_idx` names the hidden iteration counter of this range loop in its invariants
			iv := s.vars[ri.idx]
			env.bound = map[string]Val{"range_idx": {T: iv.T, Typ: untypedInt}}
		}
		return env
	}

	// 1. invariants hold on entry
	if ls != nil {
		for _, inv := range ls.Invariants {
			g := c.eval(specEnv(st), inv.Expr)
			c.oblige(st, "inv-entry", lname+":"+inv.Label, g.T, inv.Src, inv.Try, node)
		}
	}
	// 2. havoc everything the loop may modify
	mods := c.assignedVars(body, node)
	for _, o := range mods {
		if v, ok := st.vars[o]; ok {
			if c.boxed[o] {
				nv := c.freshVal("l_"+o.Name(), o.Type(), st)
				c.storeTo(&Env{st: st}, v.T, o.Type(), nv.T)
				continue
			}
			st.vars[o] = c.freshVal("l_"+o.Name(), v.Typ, st)
		}
	}
	if ri != nil {
		st.vars[ri.idx] = c.freshVal("l_idx", types.Typ[types.Int], st)
	}
	hm := c.E.modOfNode(c, body)
	if fs, ok := node.(*ast.ForStmt); ok && fs.Post != nil {
		for k, v := range c.E.modOfNode(c, fs.Post) {
			hm[k] = v
		}
	}
	preAlloc := st.alloc
	c.havocMods(st, hm)
	headAlloc := st.alloc
	// 3. assume invariants
	if ri != nil {
		c.assume(st, ri.extraInv(st))
	}
	if ls != nil {
		for _, inv := range ls.Invariants {
			g := c.eval(specEnv(st), inv.Expr)
			c.assume(st, g.T)
		}
	}
	head := st.clone()
	// 4. guard
	g := guard(st)
	bodySt, exitSt := c.split(st, g)
	var dec0 string
	if ls != nil && ls.Decreases != nil {
		dec0 = c.eval(specEnv(bodySt), ls.Decreases.Expr).T
	}
	pre(bodySt)
	if ls != nil {
		for _, h := range ls.Hints {
			g := c.eval(specEnv(bodySt), h.Expr)
			c.oblige(bodySt, "hint", lname+":"+h.Label, g.T, h.Src, h.Try, node)
			c.assume(bodySt, g.T)
		}
	}
	lf := &loopFrame{label: label}
	c.loops = append(c.loops, lf)
	c.execBlock(bodySt, body.List)
	c.loops = c.loops[:len(c.loops)-1]
	cont := c.join(append([]*State{bodySt}, lf.continues...)...)
	if !cont.dead() {
		post(cont)
		if ri != nil {
			// range index stays within bounds by construction
		}
		if ls != nil {
			for _, inv := range ls.Invariants {
				gi := c.eval(specEnv(cont), inv.Expr)
				c.oblige(cont, "inv-pres", lname+":"+inv.Label, gi.T, inv.Src, inv.Try, node)
			}
			if ls.Decreases != nil {
				d1 := c.eval(specEnv(cont), ls.Decreases.Expr).T
				c.oblige(cont, "dec", lname, and(app("<=", "0", dec0), app("<", d1, dec0)), ls.Decreases.Src, ls.Decreases.Try, node)
			}
		}
	}
	_ = head
	if headAlloc != preAlloc && (cont.dead() || cont.alloc == headAlloc) {
		// no path that returns to the loop head allocates: by induction the allocation frontier
		// at the head is the one before the loop, on every iteration
		c.facts = append(c.facts, eq(headAlloc, preAlloc))
	}
	st.become(c.join(append([]*State{exitSt}, lf.breaks...)...))
}

// assignedVars returns the local variables assigned inside n (syntactically).
func (c *FnCtx) assignedVars(n ast.Node, loop ast.Node) []*types.Var {
	seen := map[*types.Var]bool{}
	var out []*types.Var
	add := func(e ast.Expr) {
		for {
			e = unparen(e)
			switch y := e.(type) {
			case *ast.Ident:
				if v, ok := c.info().ObjectOf(y).(*types.Var); ok && !seen[v] {
					seen[v] = true
					out = append(out, v)
				}
				return
			case *ast.SelectorExpr:
				// x.f = v modifies the variable x only when x is a struct value; through a
				// pointer it modifies the heap
				if t := c.info().TypeOf(y.X); t != nil {
					if _, isPtr := t.Underlying().(*types.Pointer); isPtr {
						return
					}
				}
				e = y.X
			case *ast.IndexExpr:
				if t := c.info().TypeOf(y.X); t != nil {
					switch t.Underlying().(type) {
					case *types.Slice, *types.Map, *types.Pointer:
						return
					}
				}
				e = y.X
			default:
				return
			}
		}
	}
	visit := func(m ast.Node) bool {
		switch s := m.(type) {
		case *ast.AssignStmt:
			for _, l := range s.Lhs {
				add(l)
			}
		case *ast.IncDecStmt:
			add(s.X)
		case *ast.RangeStmt:
			if s.Tok == token.ASSIGN {
				if s.Key != nil {
					add(s.Key)
				}
				if s.Value != nil {
					add(s.Value)
				}
			}
		}
		return true
	}
	ast.Inspect(n, visit)
	if fs, ok := loop.(*ast.ForStmt); ok && fs.Post != nil {
		ast.Inspect(fs.Post, visit)
	}
	return out
}

func (c *FnCtx) havocMods(st *State, hm map[string]types.Type) {
	if _, all := hm["*"]; all {
		c.havocAll(st)
		return
	}
	for k, t := range hm {
		c.havocKey(st, k, t)
	}
	if len(hm) > 0 {
		na := c.fresh("alloc")
		c.declConst(na, "Int")
		c.facts = append(c.facts, app(">=", na, st.alloc), app("<", na, "281474976710656"))
		st.alloc = na
	}
}
