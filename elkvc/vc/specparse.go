package vc

import (
	"fmt"
	"go/ast"
	"go/scanner"
	"go/token"
	"strings"
)

// Spec expressions are parsed into go/ast nodes so that one evaluator handles
// code and specifications.  Extensions:
//   A ==> B      BinaryExpr{Op: tokImplies}
//   A <==> B     BinaryExpr{Op: tokIff}
//   forall x T, y U :: body    CallExpr{Fun: forall, Args: [x, T, y, U, body]}
//   exists ...                 likewise
const (
	tokImplies = token.Token(200)
	tokIff     = token.Token(201)
)

type specTok struct {
	tok token.Token
	lit string
	pos int
}

type specParser struct {
	toks []specTok
	i    int
	src  string
}

func ParseSpecExpr(src string) (e ast.Expr, err error) {
	defer func() {
		if r := recover(); r != nil {
			if pe, ok := r.(specParseError); ok {
				err = fmt.Errorf("spec parse error: %s in %q", string(pe), src)
				return
			}
			panic(r)
		}
	}()
	s := strings.ReplaceAll(src, "<==>", " ... ")
	s = strings.ReplaceAll(s, "==>", " := ")
	fset := token.NewFileSet()
	file := fset.AddFile("spec", -1, len(s))
	var sc scanner.Scanner
	var errs []string
	sc.Init(file, []byte(s), func(pos token.Position, msg string) { errs = append(errs, msg) }, 0)
	p := &specParser{src: src}
	for {
		pos, tok, lit := sc.Scan()
		if tok == token.EOF {
			break
		}
		if tok == token.SEMICOLON && lit == "\n" {
			continue
		}
		p.toks = append(p.toks, specTok{tok, lit, int(pos)})
	}
	if len(errs) > 0 {
		return nil, fmt.Errorf("spec scan error: %s in %q", errs[0], src)
	}
	e = p.parseExpr(0)
	if p.i < len(p.toks) {
		p.fail("unexpected token " + p.toks[p.i].tok.String() + " " + p.toks[p.i].lit)
	}
	return e, nil
}

type specParseError string

func (p *specParser) fail(msg string) { panic(specParseError(msg)) }

func (p *specParser) peek() specTok {
	if p.i < len(p.toks) {
		return p.toks[p.i]
	}
	return specTok{tok: token.EOF}
}
func (p *specParser) next() specTok {
	t := p.peek()
	p.i++
	return t
}
func (p *specParser) expect(t token.Token) specTok {
	x := p.next()
	if x.tok != t {
		p.fail(fmt.Sprintf("expected %s, got %s %q", t, x.tok, x.lit))
	}
	return x
}

func specPrec(t token.Token) int {
	switch t {
	case token.ELLIPSIS: // <==>
		return 1
	case token.DEFINE: // ==>
		return 2
	case token.LOR:
		return 3
	case token.LAND:
		return 4
	case token.EQL, token.NEQ, token.LSS, token.LEQ, token.GTR, token.GEQ:
		return 5
	case token.ADD, token.SUB, token.OR, token.XOR:
		return 6
	case token.MUL, token.QUO, token.REM, token.SHL, token.SHR, token.AND, token.AND_NOT:
		return 7
	}
	return 0
}

func (p *specParser) parseExpr(minPrec int) ast.Expr {
	lhs := p.parseUnary()
	for {
		t := p.peek()
		prec := specPrec(t.tok)
		if prec == 0 || prec < minPrec {
			return lhs
		}
		p.next()
		var rhs ast.Expr
		if t.tok == token.DEFINE { // right assoc
			rhs = p.parseExpr(prec)
		} else {
			rhs = p.parseExpr(prec + 1)
		}
		op := t.tok
		if op == token.DEFINE {
			op = tokImplies
		} else if op == token.ELLIPSIS {
			op = tokIff
		}
		lhs = &ast.BinaryExpr{X: lhs, Op: op, Y: rhs}
	}
}

func (p *specParser) parseUnary() ast.Expr {
	t := p.peek()
	switch t.tok {
	case token.NOT, token.SUB, token.ADD, token.XOR:
		p.next()
		x := p.parseUnary()
		return &ast.UnaryExpr{Op: t.tok, X: x}
	case token.MUL:
		p.next()
		x := p.parseUnary()
		return &ast.StarExpr{X: x}
	case token.AND:
		p.next()
		x := p.parseUnary()
		return &ast.UnaryExpr{Op: token.AND, X: x}
	}
	return p.parsePostfix(p.parsePrimary())
}

func (p *specParser) parsePrimary() ast.Expr {
	t := p.next()
	switch t.tok {
	case token.INT, token.FLOAT, token.STRING, token.CHAR:
		return &ast.BasicLit{Kind: t.tok, Value: t.lit}
	case token.LPAREN:
		// parenthesised expression, or a pointer-type conversion (*T)(x)
		e := p.parseExpr(0)
		p.expect(token.RPAREN)
		return &ast.ParenExpr{X: e}
	case token.IDENT:
		if (t.lit == "forall" || t.lit == "exists") && p.peek().tok == token.IDENT {
			args := []ast.Expr{}
			for {
				name := p.expect(token.IDENT)
				typ := p.parseType()
				args = append(args, &ast.Ident{Name: name.lit}, typ)
				if p.peek().tok == token.COMMA {
					p.next()
					continue
				}
				break
			}
			p.expect(token.COLON)
			p.expect(token.COLON)
			body := p.parseExpr(0)
			args = append(args, body)
			return &ast.CallExpr{Fun: &ast.Ident{Name: t.lit}, Args: args}
		}
		return &ast.Ident{Name: t.lit}
	case token.LBRACK:
		// slice type in conversion position, e.g. []byte(x)
		p.expect(token.RBRACK)
		elt := p.parseType()
		return &ast.ArrayType{Elt: elt}
	}
	p.fail(fmt.Sprintf("unexpected token %s %q", t.tok, t.lit))
	return nil
}

func (p *specParser) parseType() ast.Expr {
	t := p.next()
	switch t.tok {
	case token.MUL:
		return &ast.StarExpr{X: p.parseType()}
	case token.LBRACK:
		p.expect(token.RBRACK)
		return &ast.ArrayType{Elt: p.parseType()}
	case token.IDENT:
		var e ast.Expr = &ast.Ident{Name: t.lit}
		if p.peek().tok == token.PERIOD {
			p.next()
			sel := p.expect(token.IDENT)
			e = &ast.SelectorExpr{X: e, Sel: &ast.Ident{Name: sel.lit}}
		}
		return e
	}
	p.fail("bad type")
	return nil
}

func (p *specParser) parsePostfix(x ast.Expr) ast.Expr {
	for {
		t := p.peek()
		switch t.tok {
		case token.PERIOD:
			p.next()
			if p.peek().tok == token.LPAREN { // type assertion x.(T)
				p.next()
				typ := p.parseType()
				p.expect(token.RPAREN)
				x = &ast.TypeAssertExpr{X: x, Type: typ}
				continue
			}
			sel := p.expect(token.IDENT)
			x = &ast.SelectorExpr{X: x, Sel: &ast.Ident{Name: sel.lit}}
		case token.LPAREN:
			p.next()
			var args []ast.Expr
			for p.peek().tok != token.RPAREN {
				args = append(args, p.parseExpr(0))
				if p.peek().tok == token.COMMA {
					p.next()
				} else {
					break
				}
			}
			p.expect(token.RPAREN)
			x = &ast.CallExpr{Fun: x, Args: args}
		case token.LBRACK:
			p.next()
			var lo, hi ast.Expr
			if p.peek().tok != token.COLON {
				lo = p.parseExpr(0)
			}
			if p.peek().tok == token.COLON {
				p.next()
				if p.peek().tok != token.RBRACK {
					hi = p.parseExpr(0)
				}
				p.expect(token.RBRACK)
				x = &ast.SliceExpr{X: x, Low: lo, High: hi}
			} else {
				p.expect(token.RBRACK)
				x = &ast.IndexExpr{X: x, Index: lo}
			}
		default:
			return x
		}
	}
}
