package vc

import (
	"fmt"
	"go/types"
	"strings"
)

// Floating point values against the reals.
//
// Solvers do not decide queries that mix fp.to_real / integer-to-float rounding with integer
// arithmetic, so the link between a float and the real number it denotes is made through an
// uninterpreted order embedding f2r<bits> : Float -> Real with the (true) facts that are needed
// stated at each use:
//   comparison   for finite a, b (not NaN):  a < b  <==>  f2r(a) < f2r(b), likewise == <= > >=
//                (IEEE comparison of finite values is comparison of the values; -0 == +0)
//   int -> float the result is finite, not NaN; it is the integer itself when the integer has
//                at most 53 (24) significant bits in magnitude range, and rounding is monotone:
//                an integer above 2^53 never rounds below 2^53
// Everything proved from these facts holds for real IEEE arithmetic (they are consequences of
// it); what cannot be proved from them is reported as not proved, never as a model.

func (c *FnCtx) f2r(bits int) string {
	name := fmt.Sprintf("f2r%d", bits)
	if !c.declSet[name] {
		c.declSet[name] = true
		srt := "(_ FloatingPoint 11 53)"
		if bits == 32 {
			srt = "(_ FloatingPoint 8 24)"
		}
		c.decls = append(c.decls, fmt.Sprintf("(declare-fun %s (%s) Real)", name, srt))
	}
	return name
}

// f2rOf: the real denoted by the float term t, with the sign facts of that term.
func (c *FnCtx) f2rOf(t string, bits int) string {
	f := c.f2r(bits)
	r := app(f, t)
	key := "f2r:" + t
	if !c.declSet[key] && !strings.Contains(t, "!q") { // no ground facts about quantified variables
		c.declSet[key] = true
		c.facts = append(c.facts,
			implies(app("fp.isZero", t), eq(r, "0.0")),
			implies(and(fpFinite(t), not(app("fp.isZero", t)), app("fp.isNegative", t)), app("<", r, "0.0")),
			implies(and(fpFinite(t), not(app("fp.isZero", t)), app("fp.isPositive", t)), app(">", r, "0.0")))
	}
	return r
}

func fpFinite(t string) string {
	return and(not(app("fp.isNaN", t)), not(app("fp.isInfinite", t)))
}

// fpOrderFacts: ground facts tying the IEEE comparisons of a and b to the order of the reals.
func (c *FnCtx) fpOrderFacts(a, b string, bits int) {
	key := "fpo:" + a + "|" + b
	if c.declSet[key] {
		return
	}
	c.declSet[key] = true
	ra, rb := c.f2rOf(a, bits), c.f2rOf(b, bits)
	fin := and(fpFinite(a), fpFinite(b))
	c.facts = append(c.facts,
		implies(fin, eq(app("fp.lt", a, b), app("<", ra, rb))),
		implies(fin, eq(app("fp.eq", a, b), eq(ra, rb))),
		implies(fin, eq(app("fp.leq", a, b), app("<=", ra, rb))))
}

// intToFloat: Go's conversion of a (non-literal) integer to a float type.
func (c *FnCtx) intToFloat(v Val, target types.Type, bits int) Val {
	name := fmt.Sprintf("i2f%d", bits)
	srt, mant := "(_ FloatingPoint 11 53)", 53
	if bits == 32 {
		srt, mant = "(_ FloatingPoint 8 24)", 24
	}
	if !c.declSet[name] {
		c.declSet[name] = true
		c.decls = append(c.decls, fmt.Sprintf("(declare-fun %s (Int) %s)", name, srt))
	}
	t := app(name, v.T)
	key := "i2f:" + t
	if !c.declSet[key] {
		c.declSet[key] = true
		r := c.f2rOf(t, bits)
		lim := pow2(mant).String()
		limR := lim + ".0"
		c.facts = append(c.facts,
			fpFinite(t),
			implies(and(app("<=", "(- "+lim+")", v.T), app("<=", v.T, lim)), eq(r, app("to_real", v.T))),
			implies(app(">", v.T, lim), app(">=", r, limR)),
			implies(app("<", v.T, "(- "+lim+")"), app("<=", r, "(- "+limR+")")),
			// zero converts to +0
			implies(eq(v.T, "0"), app("fp.isZero", t)))
	}
	return Val{T: t, Typ: target}
}
