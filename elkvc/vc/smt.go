package vc

import (
	"bytes"
	"context"
	"fmt"
	"os"
	"os/exec"
	"path/filepath"
	"regexp"
	"strings"
	"sync"
	"time"
)

// ---------------------------------------------------------------------------
// SMT term helpers (terms are plain S-expression strings)

func app(f string, args ...string) string {
	if len(args) == 0 {
		return f
	}
	return "(" + f + " " + strings.Join(args, " ") + ")"
}

func and(xs ...string) string {
	var ys []string
	for _, x := range xs {
		if x == "true" || x == "" {
			continue
		}
		if x == "false" {
			return "false"
		}
		ys = append(ys, x)
	}
	switch len(ys) {
	case 0:
		return "true"
	case 1:
		return ys[0]
	}
	return app("and", ys...)
}

func or(xs ...string) string {
	var ys []string
	for _, x := range xs {
		if x == "false" || x == "" {
			continue
		}
		if x == "true" {
			return "true"
		}
		ys = append(ys, x)
	}
	switch len(ys) {
	case 0:
		return "false"
	case 1:
		return ys[0]
	}
	return app("or", ys...)
}

func not(x string) string {
	switch x {
	case "true":
		return "false"
	case "false":
		return "true"
	}
	if strings.HasPrefix(x, "(not ") && balanced(x[5:len(x)-1]) {
		return x[5 : len(x)-1]
	}
	return app("not", x)
}

func balanced(s string) bool {
	d := 0
	for _, c := range s {
		if c == '(' {
			d++
		} else if c == ')' {
			d--
			if d < 0 {
				return false
			}
		}
	}
	return d == 0
}

func implies(a, b string) string {
	if a == "true" {
		return b
	}
	if a == "false" || b == "true" {
		return "true"
	}
	return app("=>", a, b)
}

func ite(c, a, b string) string {
	if c == "true" {
		return a
	}
	if c == "false" {
		return b
	}
	if a == b {
		return a
	}
	return app("ite", c, a, b)
}

func eq(a, b string) string {
	if a == b {
		return "true"
	}
	return app("=", a, b)
}

func intLit(s string) string {
	if strings.HasPrefix(s, "-") {
		return "(- " + s[1:] + ")"
	}
	return s
}

func itoa(n int64) string { return intLit(fmt.Sprint(n)) }

// ---------------------------------------------------------------------------
// Solver race

type SolverResult struct {
	Status string // unsat | sat | unknown | timeout | error
	Solver string
	Ms     int64
	Output string // verbatim output of the deciding (or last) solver
	Model  map[string]string
	FailedCase int // index of the first undischarged case of a case-split run (-1: none)
}

type solverSpec struct {
	name string
	argv func(file string, timeoutS int, seed int) []string
}

var solvers = []solverSpec{
	{"z3-new", func(f string, t, seed int) []string {
		return []string{"z3-new", fmt.Sprintf("-T:%d", t), fmt.Sprintf("smt.random_seed=%d", seed), fmt.Sprintf("sat.random_seed=%d", seed), f}
	}},
	{"z3", func(f string, t, seed int) []string {
		return []string{"z3", fmt.Sprintf("-T:%d", t), fmt.Sprintf("smt.random_seed=%d", seed), fmt.Sprintf("sat.random_seed=%d", seed), f}
	}},
	{"cvc5", func(f string, t, seed int) []string {
		return []string{"cvc5", "--produce-models", fmt.Sprintf("--tlimit=%d", t*1000), fmt.Sprintf("--seed=%d", seed), f}
	}},
}

var SolverSem = make(chan struct{}, 14)

var scratchDir string
var scratchOnce sync.Once

func Scratch() string {
	scratchOnce.Do(func() {
		d, err := os.MkdirTemp("", "elkvc-")
		if err != nil {
			panic(err)
		}
		scratchDir = d
	})
	return scratchDir
}

func CleanupScratch() {
	if scratchDir != "" {
		os.RemoveAll(scratchDir)
	}
}

var fileCounter struct {
	sync.Mutex
	n int
}

// RunSMT races the installed solvers on the query. `only` restricts the
// solver set (nil = all).
func RunSMT(query string, timeoutS int, seed int, wantModel bool, only []string) SolverResult {
	fileCounter.Lock()
	fileCounter.n++
	n := fileCounter.n
	fileCounter.Unlock()
	file := filepath.Join(Scratch(), fmt.Sprintf("q%d.smt2", n))
	q := query
	if !strings.Contains(q, "(check-sat)") {
		q += "\n(check-sat)\n"
	}
	if wantModel {
		q += "(get-model)\n"
	}
	if err := os.WriteFile(file, []byte(q), 0o644); err != nil {
		return SolverResult{Status: "error", Output: err.Error()}
	}
	defer os.Remove(file)

	ctx, cancel := context.WithCancel(context.Background())
	defer cancel()
	type res struct {
		r SolverResult
	}
	ch := make(chan SolverResult, len(solvers))
	started := 0
	for _, s := range solvers {
		if only != nil {
			ok := false
			for _, o := range only {
				if o == s.name {
					ok = true
				}
			}
			if !ok {
				continue
			}
		}
		started++
		go func(s solverSpec) {
			SolverSem <- struct{}{}
			defer func() { <-SolverSem }()
			if ctx.Err() != nil {
				ch <- SolverResult{Status: "cancelled", Solver: s.name}
				return
			}
			argv := s.argv(file, timeoutS, seed)
			t0 := time.Now()
			cctx, ccancel := context.WithTimeout(ctx, time.Duration(timeoutS+2)*time.Second)
			defer ccancel()
			cmd := exec.CommandContext(cctx, argv[0], argv[1:]...)
			var out bytes.Buffer
			cmd.Stdout = &out
			cmd.Stderr = &out
			cmd.Run()
			ms := time.Since(t0).Milliseconds()
			o := out.String()
			first := strings.TrimSpace(strings.SplitN(strings.TrimSpace(o), "\n", 2)[0])
			st := "unknown"
			switch {
			case first == "unsat":
				st = "unsat"
			case first == "sat":
				st = "sat"
			case first == "timeout" || strings.Contains(first, "interrupted") || cctx.Err() != nil:
				st = "timeout"
			case first == "unknown":
				st = "unknown"
			case strings.Contains(o, "error") || strings.Contains(o, "Error"):
				st = "error"
			}
			ch <- SolverResult{Status: st, Solver: s.name, Ms: ms, Output: o}
		}(s)
	}
	var last SolverResult
	var firstErr *SolverResult
	for i := 0; i < started; i++ {
		r := <-ch
		if r.Status == "unsat" {
			cancel()
			return r
		}
		if r.Status == "sat" {
			if wantModel {
				r.Model = parseModel(r.Output)
			}
			cancel()
			return r
		}
		if r.Status == "error" && firstErr == nil {
			rr := r
			firstErr = &rr
		}
		if r.Status != "cancelled" && (last.Status == "" || last.Status == "error") {
			last = r
		}
	}
	if last.Status == "" && firstErr != nil {
		return *firstErr
	}
	if last.Status == "error" {
		return last
	}
	if last.Status == "" {
		last.Status = "unknown"
	}
	return last
}

// RunSMTMulti runs an incremental script with n check-sat commands on z3-new and z3
// (cvc5 with --incremental) and reports unsat iff some solver answered unsat to all of them.
func RunSMTMulti(script string, n int, timeoutS int, seed int) SolverResult {
	fileCounter.Lock()
	fileCounter.n++
	k := fileCounter.n
	fileCounter.Unlock()
	file := filepath.Join(Scratch(), fmt.Sprintf("m%d.smt2", k))
	if err := os.WriteFile(file, []byte(script), 0o644); err != nil {
		return SolverResult{Status: "error", Output: err.Error(), FailedCase: -1}
	}
	defer os.Remove(file)
	ctx, cancel := context.WithCancel(context.Background())
	defer cancel()
	type cand struct {
		name string
		argv []string
	}
	cands := []cand{
		{"z3-new", []string{"z3-new", fmt.Sprintf("-T:%d", timeoutS), fmt.Sprintf("smt.random_seed=%d", seed), file}},
		{"z3", []string{"z3", fmt.Sprintf("-T:%d", timeoutS), fmt.Sprintf("smt.random_seed=%d", seed), file}},
		{"cvc5", []string{"cvc5", "--incremental", fmt.Sprintf("--tlimit=%d", timeoutS*1000), fmt.Sprintf("--seed=%d", seed), file}},
	}
	ch := make(chan SolverResult, len(cands))
	for _, cd := range cands {
		go func(cd cand) {
			SolverSem <- struct{}{}
			defer func() { <-SolverSem }()
			if ctx.Err() != nil {
				ch <- SolverResult{Status: "cancelled", Solver: cd.name, FailedCase: -1}
				return
			}
			t0 := time.Now()
			cctx, ccancel := context.WithTimeout(ctx, time.Duration(timeoutS+2)*time.Second)
			defer ccancel()
			cmd := exec.CommandContext(cctx, cd.argv[0], cd.argv[1:]...)
			var out bytes.Buffer
			cmd.Stdout = &out
			cmd.Stderr = &out
			cmd.Run()
			ms := time.Since(t0).Milliseconds()
			lines := strings.Split(strings.TrimSpace(out.String()), "\n")
			nu := 0
			failed := -1
			st := "unsat"
			for i := 0; i < n; i++ {
				if i < len(lines) && strings.TrimSpace(lines[i]) == "unsat" {
					nu++
					continue
				}
				failed = i
				st = "unknown"
				if i < len(lines) && strings.TrimSpace(lines[i]) == "sat" {
					st = "sat"
				}
				break
			}
			ch <- SolverResult{Status: st, Solver: cd.name, Ms: ms, Output: truncateStr(out.String(), 2000), FailedCase: failed}
		}(cd)
	}
	var last SolverResult
	for range cands {
		r := <-ch
		if r.Status == "unsat" {
			cancel()
			return r
		}
		if r.Status != "cancelled" && (last.Status == "" || r.Status == "sat") {
			last = r
		}
	}
	if last.Status == "" {
		last = SolverResult{Status: "unknown", FailedCase: -1}
	}
	return last
}

func truncateStr(s string, n int) string {
	if len(s) > n {
		return s[:n]
	}
	return s
}

var defineFunRe = regexp.MustCompile(`\(define-fun\s+(\S+)\s+\(\)\s+`)

// parseModel extracts zero-arity definitions `(define-fun name () Sort value)`.
func parseModel(out string) map[string]string {
	m := map[string]string{}
	idxs := defineFunRe.FindAllStringSubmatchIndex(out, -1)
	for _, ix := range idxs {
		name := out[ix[2]:ix[3]]
		name = strings.Trim(name, "|")
		rest := out[ix[1]:]
		// skip sort s-expr, then read value s-expr
		_, n1 := readSexp(rest)
		val, _ := readSexp(rest[n1:])
		m[name] = strings.Join(strings.Fields(val), " ")
	}
	return m
}

// readSexp reads one s-expression (atom or parenthesised) from the start of s,
// returns it and the number of bytes consumed.
func readSexp(s string) (string, int) {
	i := 0
	for i < len(s) && (s[i] == ' ' || s[i] == '\n' || s[i] == '\t' || s[i] == '\r') {
		i++
	}
	if i >= len(s) {
		return "", i
	}
	start := i
	if s[i] == '(' {
		d := 0
		for i < len(s) {
			if s[i] == '(' {
				d++
			} else if s[i] == ')' {
				d--
				if d == 0 {
					i++
					break
				}
			} else if s[i] == '|' {
				i++
				for i < len(s) && s[i] != '|' {
					i++
				}
			}
			i++
		}
		return s[start:i], i
	}
	if s[i] == '|' {
		i++
		for i < len(s) && s[i] != '|' {
			i++
		}
		i++
		return s[start:i], i
	}
	for i < len(s) && s[i] != ' ' && s[i] != '\n' && s[i] != ')' && s[i] != '\t' {
		i++
	}
	return s[start:i], i
}

// evalIntModel turns a model value like "(- 3)" or "5" into a decimal string.
func evalIntModel(v string) (string, bool) {
	v = strings.TrimSpace(v)
	if strings.HasPrefix(v, "(-") {
		inner := strings.TrimSpace(strings.TrimSuffix(strings.TrimPrefix(v, "(-"), ")"))
		if _, ok := evalIntModel(inner); ok {
			return "-" + inner, true
		}
		return "", false
	}
	if v == "" {
		return "", false
	}
	for _, c := range v {
		if c < '0' || c > '9' {
			return "", false
		}
	}
	return v, true
}
