package vc

import (
	"fmt"
	"go/ast"
	"go/token"
	"go/types"
	"os"
	"path/filepath"
	"regexp"
	"sort"
	"strconv"
	"strings"

	"golang.org/x/tools/go/packages"
)

const RepoModule = "github.com/elk-language/elk"

type FuncInfo struct {
	Key  string
	Pkg  *packages.Package
	Decl *ast.FuncDecl // nil for functions without source
	Lit  *ast.FuncLit  // for extracted closures
	Obj  *types.Func   // nil for closures
	Sig  *types.Signature
}

var ghostNameRe = regexp.MustCompile(`ghost\((\w+),`)

type Clause struct {
	Label string
	Src   string
	Expr  ast.Expr
	Try   bool // attempted, reported, never alarmed on
	GhostDef bool // definition of a ghost update: assumed at call sites, no obligation
	Line  int
	Using      []string // `using` list: the only lemmas/axioms in this clause's query
	UsingGiven bool
}

type LoopSpec struct {
	Ordinal    int
	Invariants []Clause
	Hints      []Clause
	Decreases  *Clause
}

type Contract struct {
	Key          string
	PkgPath      string
	Props        []string
	Arith        string // "" (int) | "bv"
	Inline       bool
	Trusted      bool
	Pure         bool
	Requires     []Clause
	Typing       []Clause // typing facts (allocated(...)): assumed at entry, not asserted by callers
	Ensures      []Clause
	Assigns      []Clause
	AssignsGiven bool
	GhostMods    []string // ghost maps named in `ensures ghostdef` clauses (part of the frame)
	Loops        map[int]*LoopSpec
	ParamNames   []string // explicit names from the key line (lib contracts)
	ResultNames  []string
	Instantiate  [][]string // generic instantiations: list of type-argument lists
	File         string
	Line         int
	NoSafety     bool // do not generate Go-level safety obligations (functional contract only)
	NoTerm       bool // no termination obligation for recursive calls
	CheckPre     bool // under nosafety: callee preconditions stay obligations
	OnlySafety   bool
	Unfold       int
	Cases        *CaseSplit
	FnDecreases  *Clause
	Partial      bool
	Unshared     bool
	Reads        []string
	Guard        *Clause
	ExitHints    []Clause
	StepInvs     []Clause // must hold after every sync / sync/atomic operation of the body (one atomic step each)
	IsLemma      bool
	IsMonitor    bool
	LemmaPTypes  []ast.Expr
	IndVar       string
	IndFrom      ast.Expr
	Uses         []string
	Asserts      map[string][]Clause // call-site assertions
	FnParams     map[string]*FnParamSpec
	Cuts         map[string][]Clause // cut points: site `Callee#k` -> assertions
}

// FnParamSpec is the contract of a function-typed parameter.
type FnParamSpec struct {
	Name   string
	Params []string
	Clause Clause
}

type CaseSplit struct {
	Expr   ast.Expr
	Lo, Hi int
}

type SpecFn struct {
	Name    string
	PkgPath string
	Params  []string
	PTypes  []ast.Expr
	RType   ast.Expr
	Body    ast.Expr
	Src     string
	Rec     bool
	File    string
}

type Axiom struct {
	Label   string
	PkgPath string
	Expr    ast.Expr
	Src     string
}

type Engine struct {
	Fset      *token.FileSet
	Pkgs      map[string]*packages.Package
	All       map[string]*packages.Package // including deps
	Funcs     map[string]*FuncInfo
	ByObj     map[*types.Func]*FuncInfo
	Contracts map[string]*Contract
	SpecFns   map[string]*SpecFn
	Axioms    []*Axiom
	Sizes     types.Sizes
	RepoDir   string
	VerifDir  string
	Findings  []*Finding
	assigned  map[types.Object]bool // package-level vars assigned somewhere
	addrTaken map[*types.Var]bool   // struct fields whose address is taken (&p.f)
	Guarded   map[string]string     // "pkg.Type.field" -> name of the mutex field protecting it
	GuardedProps map[string][]string
	fvals     []*funcValue          // function values of the repository (dyncall.go)
	fvalsDone bool
	modMemo   map[*types.Func]*modMemoEntry
	dynBusy   map[*ast.FuncLit]bool
	dynSigSeen map[string]bool
	instIdx   map[*types.Func][][]types.Type
	pendingTargs []types.Type
	pendingRecvTargs []types.Type
	chaIface  *types.Interface
	Callers   []*CallersSpec        // `callers` clauses (coverage.go)
	Owned     []*OwnedSpec          // ownership of struct fields by a set of functions (coverage.go)
	Monitors  map[string]*Contract // "pkg.Type.mutexfield" -> invariant (Requires) and rely/guarantee (Ensures)
	modCache  map[*types.Func]map[string]bool
	Warnings  []string
	liveFns   map[string]bool // spec functions that (transitively) use live()
}

func recvTypeName(t types.Type) (string, bool) {
	ptr := false
	if p, ok := t.(*types.Pointer); ok {
		ptr = true
		t = p.Elem()
	}
	switch n := t.(type) {
	case *types.Named:
		return n.Obj().Name(), ptr
	case *types.Alias:
		return n.Obj().Name(), ptr
	}
	return t.String(), ptr
}

func FuncKey(f *types.Func) string {
	f = f.Origin()
	sig := f.Type().(*types.Signature)
	pkg := ""
	if f.Pkg() != nil {
		pkg = f.Pkg().Path()
	}
	if sig.Recv() != nil {
		n, ptr := recvTypeName(sig.Recv().Type())
		if ptr {
			return fmt.Sprintf("%s.(*%s).%s", pkg, n, f.Name())
		}
		return fmt.Sprintf("%s.(%s).%s", pkg, n, f.Name())
	}
	return pkg + "." + f.Name()
}

func Load(repoDir, verifDir string, patterns []string) (*Engine, error) {
	cfg := &packages.Config{
		Mode: packages.NeedName | packages.NeedFiles | packages.NeedSyntax | packages.NeedTypes |
			packages.NeedTypesInfo | packages.NeedImports | packages.NeedDeps | packages.NeedTypesSizes,
		Dir:        repoDir,
		BuildFlags: []string{"-tags=verif"},
	}
	pkgs, err := packages.Load(cfg, patterns...)
	if err != nil {
		return nil, err
	}
	e := &Engine{
		Pkgs: map[string]*packages.Package{}, All: map[string]*packages.Package{},
		Funcs: map[string]*FuncInfo{}, ByObj: map[*types.Func]*FuncInfo{},
		Contracts: map[string]*Contract{}, SpecFns: map[string]*SpecFn{},
		RepoDir: repoDir, VerifDir: verifDir,
		assigned: map[types.Object]bool{}, modCache: map[*types.Func]map[string]bool{}, addrTaken: map[*types.Var]bool{}, Guarded: map[string]string{}, GuardedProps: map[string][]string{},
	}
	var errs []string
	for _, p := range pkgs {
		for _, pe := range p.Errors {
			errs = append(errs, pe.Error())
		}
		e.Pkgs[p.PkgPath] = p
		if e.Fset == nil {
			e.Fset = p.Fset
		}
		if e.Sizes == nil {
			e.Sizes = p.TypesSizes
		}
	}
	if len(errs) > 0 {
		return nil, fmt.Errorf("package load errors: %s", strings.Join(errs, "; "))
	}
	packages.Visit(pkgs, nil, func(p *packages.Package) {
		e.All[p.PkgPath] = p
	})
	for _, p := range e.All {
		if !strings.HasPrefix(p.PkgPath, RepoModule) {
			continue
		}
		for _, f := range p.Syntax {
			for _, d := range f.Decls {
				fd, ok := d.(*ast.FuncDecl)
				if !ok {
					continue
				}
				obj, _ := p.TypesInfo.Defs[fd.Name].(*types.Func)
				if obj == nil {
					continue
				}
				fi := &FuncInfo{Key: FuncKey(obj), Pkg: p, Decl: fd, Obj: obj, Sig: obj.Type().(*types.Signature)}
				e.Funcs[fi.Key] = fi
				e.ByObj[obj] = fi
			}
			// package-level vars assigned anywhere
			ast.Inspect(f, func(n ast.Node) bool {
				switch s := n.(type) {
				case *ast.AssignStmt:
					for _, l := range s.Lhs {
						e.noteAssigned(p, l)
					}
				case *ast.IncDecStmt:
					e.noteAssigned(p, s.X)
				case *ast.CallExpr:
					// x.f.M() with M a repo method on a pointer receiver and f a non-pointer field of
					// *x: the call takes &x.f implicitly
					if msel, ok := unparenExpr(s.Fun).(*ast.SelectorExpr); ok {
						if ms, ok := p.TypesInfo.Selections[msel]; ok && ms.Kind() == types.MethodVal {
							mf, _ := ms.Obj().(*types.Func)
							if mf != nil && mf.Pkg() != nil && strings.HasPrefix(mf.Pkg().Path(), RepoModule) {
								msig := mf.Type().(*types.Signature)
								_, recvIsPtr := msig.Recv().Type().(*types.Pointer)
								if path := ms.Index(); recvIsPtr && len(path) > 1 {
									// promoted pointer-receiver method: p.M() takes &p.Embedded implicitly
									cur := p.TypesInfo.TypeOf(msel.X)
									for _, i := range path[:len(path)-1] {
										if cur == nil {
											break
										}
										if pt, ok := cur.Underlying().(*types.Pointer); ok {
											cur = pt.Elem()
										}
										st, ok := cur.Underlying().(*types.Struct)
										if !ok || i >= st.NumFields() {
											break
										}
										fv := st.Field(i)
										if _, fieldIsPtr := fv.Type().Underlying().(*types.Pointer); !fieldIsPtr {
											e.addrTaken[fv.Origin()] = true
										}
										cur = fv.Type()
									}
								}
								rt := p.TypesInfo.TypeOf(msel.X)
								if rt != nil && recvIsPtr {
									if _, argIsPtr := rt.Underlying().(*types.Pointer); !argIsPtr {
										if sel, ok := unparenExpr(msel.X).(*ast.SelectorExpr); ok {
											if sl, ok := p.TypesInfo.Selections[sel]; ok && sl.Kind() == types.FieldVal {
												if fv, ok := sl.Obj().(*types.Var); ok {
													if bt := p.TypesInfo.TypeOf(sel.X); bt != nil {
														if _, isPtr := bt.Underlying().(*types.Pointer); isPtr {
															e.addrTaken[fv.Origin()] = true
														}
													}
												}
											}
										}
									}
								}
							}
						}
					}
				case *ast.UnaryExpr:
					if s.Op == token.AND {
						e.noteAssigned(p, s.X)
						// &x.f with x a pointer to a struct: f is an address-taken field
						if sel, ok := unparenExpr(s.X).(*ast.SelectorExpr); ok {
							if sl, ok := p.TypesInfo.Selections[sel]; ok && sl.Kind() == types.FieldVal {
								if fv, ok := sl.Obj().(*types.Var); ok {
									if bt := p.TypesInfo.TypeOf(sel.X); bt != nil {
										if _, isPtr := bt.Underlying().(*types.Pointer); isPtr {
											e.addrTaken[fv.Origin()] = true
										}
									}
								}
							}
						}
					}
				}
				return true
			})
		}
	}
	// contracts in the repo
	for _, p := range e.All {
		if !strings.HasPrefix(p.PkgPath, RepoModule) {
			continue
		}
		for i, f := range p.Syntax {
			name := p.Fset.Position(f.Pos()).Filename; _ = i
			// verif_contracts.go and generated companions verif_contracts_<topic>.go
			if b := filepath.Base(name); !strings.HasPrefix(b, "verif_contracts") || !strings.HasSuffix(b, ".go") {
				continue
			}
			for _, cg := range f.Comments {
				for _, c := range cg.List {
					if strings.HasPrefix(c.Text, "/*@") {
						body := strings.TrimSuffix(strings.TrimPrefix(c.Text, "/*@"), "@*/")
						line := e.Fset.Position(c.Pos()).Line
						if err := e.parseContracts(body, p.PkgPath, name, line); err != nil {
							return nil, err
						}
					}
				}
			}
		}
	}
	// library contracts
	libs, _ := filepath.Glob(filepath.Join(verifDir, "elkvc", "lib", "*.spec"))
	sort.Strings(libs)
	for _, l := range libs {
		b, err := os.ReadFile(l)
		if err != nil {
			return nil, err
		}
		if err := e.parseContracts(string(b), "", l, 1); err != nil {
			return nil, err
		}
	}
	if err := e.loadFindings(filepath.Join(verifDir, "known_findings.txt")); err != nil {
		return nil, err
	}
	return e, nil
}

func (e *Engine) noteAssigned(p *packages.Package, x ast.Expr) {
	for {
		switch y := x.(type) {
		case *ast.ParenExpr:
			x = y.X
			continue
		case *ast.Ident:
			if o := p.TypesInfo.Uses[y]; o != nil {
				if v, ok := o.(*types.Var); ok && v.Parent() == v.Pkg().Scope() {
					e.assigned[o] = true
				}
			}
		case *ast.SelectorExpr:
			if o := p.TypesInfo.Uses[y.Sel]; o != nil {
				if v, ok := o.(*types.Var); ok && !v.IsField() && v.Pkg() != nil && v.Parent() == v.Pkg().Scope() {
					e.assigned[o] = true
				}
			}
		}
		return
	}
}

var clauseKeywords = map[string]bool{
	"props": true, "arith": true, "inline": true, "trusted": true, "pure": true, "requires": true,
	"ensures": true, "assigns": true, "loop": true, "invariant": true, "decreases": true,
	"func": true, "spec": true, "axiom": true, "instantiate": true, "nosafety": true,
	"onlysafety": true, "unfold": true, "assert": true, "cases": true, "partial": true,
	"lemma": true, "induction": true, "uses": true, "hint": true, "reads": true, "guard": true,
	"guarded": true, "unshared": true, "fnparam": true, "monitor": true, "stepinv": true,
	"typing": true, "cut": true, "noterm": true, "owned": true, "callers": true, "checkpre": true,
}

var callersRe = regexp.MustCompile(`^(.+?)\s+only\s+(.+?)\s+for\s+(.+)$`)
var ownedRe = regexp.MustCompile(`^(.+?)\s+by\s+(.+?)\s+for\s+(.+)$`)
var usingRe = regexp.MustCompile(`^([A-Za-z_][A-Za-z0-9_]*)\s+using\s+([A-Za-z0-9_, ]+):\s*(.*)$`)
var fnparamRe = regexp.MustCompile(`^([A-Za-z_][A-Za-z0-9_]*)\(([^)]*)\)\s*:\s*(.*)$`)
var assertRe = regexp.MustCompile(`^(before|after)\s+([A-Za-z_][A-Za-z0-9_]*)#([0-9]+)\s*:\s*(.*)$`)

var lemmaRe = regexp.MustCompile(`^([A-Za-z_][A-Za-z0-9_]*)\s*\(([^)]*)\)$`)

var labelRe = regexp.MustCompile(`^([A-Za-z_][A-Za-z0-9_\-]*):(?:[^:]|$)`)

func stripComment(l string) string {
	if i := strings.Index(l, "//"); i >= 0 {
		return l[:i]
	}
	return l
}

func (e *Engine) parseContracts(body, pkgPath, file string, line0 int) error {
	lines := strings.Split(body, "\n")
	type rawClause struct {
		kw   string
		text string
		line int
	}
	var clauses []rawClause
	for i, l := range lines {
		l = stripComment(l)
		t := strings.TrimSpace(l)
		if t == "" {
			continue
		}
		kw := t
		if j := strings.IndexAny(t, " \t"); j >= 0 {
			kw = t[:j]
		}
		if clauseKeywords[kw] {
			clauses = append(clauses, rawClause{kw, strings.TrimSpace(t[len(kw):]), line0 + i})
		} else if len(clauses) > 0 {
			clauses[len(clauses)-1].text += " " + t
		} else {
			return fmt.Errorf("%s:%d: unexpected text %q", file, line0+i, t)
		}
	}
	var cur *Contract
	var curLoop *LoopSpec
	mkClause := func(rc rawClause) (Clause, error) {
		txt := rc.text
		cl := Clause{Line: rc.line}
		if strings.HasPrefix(txt, "try ") {
			cl.Try = true
			txt = strings.TrimSpace(txt[4:])
		}
		if strings.HasPrefix(txt, "ghostdef ") {
			// `ensures ghostdef label: e` — e speaks about ghost state only and DEFINES how this
			// function moves it (the body contains no ghost code that could be checked against
			// it): assumed by callers, not an obligation of the function, listed as an assumption
			cl.GhostDef = true
			txt = strings.TrimSpace(txt[9:])
		}
		if m := usingRe.FindStringSubmatch(txt); m != nil {
			// `label using lemma1, axiom2: expr` — only the named lemmas/axioms are part of this
			// clause's proof obligation (the others are left out of the query)
			cl.Label = m[1]
			for _, u := range strings.Split(m[2], ",") {
				if u = strings.TrimSpace(u); u != "" && u != "nothing" {
					cl.Using = append(cl.Using, u)
				}
			}
			cl.UsingGiven = true
			txt = strings.TrimSpace(m[3])
		} else if m := labelRe.FindStringSubmatch(txt); m != nil {
			cl.Label = m[1]
			txt = strings.TrimSpace(txt[len(m[1])+1:])
		}
		ex, err := ParseSpecExpr(txt)
		if err != nil {
			return cl, fmt.Errorf("%s:%d: %v", file, rc.line, err)
		}
		cl.Src = txt
		cl.Expr = ex
		return cl, nil
	}
	for _, rc := range clauses {
		switch rc.kw {
		case "func":
			c, err := parseFuncKey(rc.text, pkgPath)
			if err != nil {
				return fmt.Errorf("%s:%d: %v", file, rc.line, err)
			}
			c.File, c.Line = file, rc.line
			c.Loops = map[int]*LoopSpec{}
			c.Asserts = map[string][]Clause{}
			if _, dup := e.Contracts[c.Key]; dup {
				return fmt.Errorf("%s:%d: duplicate contract for %s", file, rc.line, c.Key)
			}
			e.Contracts[c.Key] = c
			cur, curLoop = c, nil
		case "lemma":
			// lemma NAME(p1 T1, p2 T2): a proved (by induction) fact about spec functions
			m := lemmaRe.FindStringSubmatch(strings.TrimSpace(rc.text))
			if m == nil {
				return fmt.Errorf("%s:%d: bad lemma header", file, rc.line)
			}
			c := &Contract{Key: "lemma:" + m[1], PkgPath: pkgPath, IsLemma: true, File: file, Line: rc.line,
				Loops: map[int]*LoopSpec{}, Asserts: map[string][]Clause{}}
			if strings.TrimSpace(m[2]) != "" {
				for _, p := range strings.Split(m[2], ",") {
					fs := strings.Fields(strings.TrimSpace(p))
					if len(fs) != 2 {
						return fmt.Errorf("%s:%d: bad lemma parameter %q", file, rc.line, p)
					}
					te, err := ParseSpecType(fs[1])
					if err != nil {
						return fmt.Errorf("%s:%d: %v", file, rc.line, err)
					}
					c.ParamNames = append(c.ParamNames, fs[0])
					c.LemmaPTypes = append(c.LemmaPTypes, te)
				}
			}
			e.Contracts[c.Key] = c
			cur, curLoop = c, nil
		case "monitor":
			// monitor T.m(self): the mutex field m of struct T is a monitor for the fields declared
			// `guarded T.f by m`.  Its `requires` clauses are the monitor invariant over `self`
			// (assumed when the lock is acquired, proved when the write lock is released); its
			// `ensures` clauses are the rely/guarantee relation between old(...) = the state at
			// an earlier moment and the current state: what other threads may have done while the
			// lock was not held (assumed at acquisition) and what this thread may do while it
			// holds the write lock (proved at release).
			hd := strings.TrimSpace(rc.text)
			op := strings.Index(hd, "(")
			if op < 0 || !strings.HasSuffix(hd, ")") || !strings.Contains(hd[:op], ".") {
				return fmt.Errorf("%s:%d: monitor T.m(self)", file, rc.line)
			}
			c := &Contract{Key: "monitor:" + pkgPath + "." + hd[:op], PkgPath: pkgPath, IsMonitor: true, File: file, Line: rc.line,
				Loops: map[int]*LoopSpec{}, Asserts: map[string][]Clause{}, ParamNames: []string{strings.TrimSpace(hd[op+1 : len(hd)-1])}}
			if e.Monitors == nil {
				e.Monitors = map[string]*Contract{}
			}
			e.Monitors[pkgPath+"."+hd[:op]] = c
			cur, curLoop = c, nil
		case "guarded":
			// guarded T.f by m: field f of struct T is protected by the mutex field m of the same object
			fs := strings.Fields(rc.text)
			if len(fs) < 3 || fs[1] != "by" || !strings.Contains(fs[0], ".") {
				return fmt.Errorf("%s:%d: guarded T.f by m [for PROP...]", file, rc.line)
			}
			e.Guarded[pkgPath+"."+fs[0]] = fs[2]
			if len(fs) > 4 && fs[3] == "for" {
				// every function of the package that mentions the field must be under contract for these properties
				e.GuardedProps[pkgPath+"."+fs[0]] = fs[4:]
			}
			cur, curLoop = nil, nil
		case "owned":
			// owned T.f, T.g by fn1, fn2 for PROP...
			m := ownedRe.FindStringSubmatch(strings.TrimSpace(rc.text))
			if m == nil {
				return fmt.Errorf("%s:%d: owned T.f[, T.g...] by fn[, fn...] for PROP...", file, rc.line)
			}
			os := &OwnedSpec{PkgPath: pkgPath, Props: strings.Fields(m[3])}
			for _, tf := range strings.Split(m[1], ",") {
				tf = strings.TrimSpace(tf)
				i := strings.Index(tf, ".")
				if i < 0 {
					return fmt.Errorf("%s:%d: owned: field must be written T.f", file, rc.line)
				}
				if os.TypeName != "" && os.TypeName != tf[:i] {
					return fmt.Errorf("%s:%d: owned: one struct type per clause", file, rc.line)
				}
				os.TypeName = tf[:i]
				os.Fields = append(os.Fields, tf[i+1:])
			}
			for _, o := range strings.Split(m[2], ",") {
				os.Owners = append(os.Owners, strings.TrimSpace(o))
			}
			e.Owned = append(e.Owned, os)
			cur, curLoop = nil, nil
		case "callers":
			// callers (*T).Method only fn1, fn2 for PROP...   — the method (of this package) may be
			// called from the listed functions only, anywhere in the repository
			m := callersRe.FindStringSubmatch(strings.TrimSpace(rc.text))
			if m == nil {
				return fmt.Errorf("%s:%d: callers (*T).M only fn[, fn...] for PROP...", file, rc.line)
			}
			cs := &CallersSpec{Key: pkgPath + "." + strings.TrimSpace(m[1]), Props: strings.Fields(m[3])}
			for _, o := range strings.Split(m[2], ",") {
				cs.Allowed = append(cs.Allowed, strings.TrimSpace(o))
			}
			e.Callers = append(e.Callers, cs)
			cur, curLoop = nil, nil
		case "spec":
			sf, err := parseSpecFn(rc.text, pkgPath)
			if err != nil {
				return fmt.Errorf("%s:%d: %v", file, rc.line, err)
			}
			sf.File = file
			if prev := e.SpecFns[sf.Name]; prev != nil {
				return fmt.Errorf("%s:%d: spec fn %s is already defined in %s", file, rc.line, sf.Name, prev.File)
			}
			e.SpecFns[sf.Name] = sf
			cur, curLoop = nil, nil
		case "axiom":
			cl, err := mkClause(rc)
			if err != nil {
				return err
			}
			e.Axioms = append(e.Axioms, &Axiom{Label: cl.Label, PkgPath: pkgPath, Expr: cl.Expr, Src: cl.Src})
			cur, curLoop = nil, nil
		default:
			if cur == nil {
				return fmt.Errorf("%s:%d: clause %q outside a func block", file, rc.line, rc.kw)
			}
			switch rc.kw {
			case "props":
				cur.Props = strings.Fields(rc.text)
			case "arith":
				cur.Arith = rc.text
			case "inline":
				cur.Inline = true
			case "trusted":
				cur.Trusted = true
			case "pure":
				cur.Pure = true
			case "reads":
				cur.Reads = append(cur.Reads, strings.Fields(strings.ReplaceAll(rc.text, ",", " "))...)
			case "nosafety":
				cur.NoSafety = true
			case "checkpre":
				// with `nosafety`: the preconditions of callees are still proof obligations
				cur.CheckPre = true
			case "noterm":
				// termination of (mutual) recursion is not claimed: partial correctness only
				cur.NoTerm = true
			case "partial":
				cur.Partial = true
			case "unshared":
				cur.Unshared = true
			case "guard":
				cl, err := mkClause(rc)
				if err != nil {
					return err
				}
				cur.Guard = &cl
			case "uses":
				cur.Uses = append(cur.Uses, strings.Fields(strings.ReplaceAll(rc.text, ",", " "))...)
			case "induction":
				// induction <param> from <lo>
				fs := strings.Fields(rc.text)
				if len(fs) != 3 || fs[1] != "from" {
					return fmt.Errorf("%s:%d: induction <param> from <lower bound>", file, rc.line)
				}
				lo, err := ParseSpecExpr(fs[2])
				if err != nil {
					return fmt.Errorf("%s:%d: %v", file, rc.line, err)
				}
				cur.IndVar, cur.IndFrom = fs[0], lo
			case "onlysafety":
				cur.OnlySafety = true
			case "unfold":
				n, _ := strconv.Atoi(rc.text)
				cur.Unfold = n
			case "cases":
				// cases <expr> <lo> <hi>: discharge every post obligation separately for expr == lo..hi and for the rest
				fs := strings.Fields(rc.text)
				if len(fs) < 3 {
					return fmt.Errorf("%s:%d: cases <expr> <lo> <hi>", file, rc.line)
				}
				lo, err1 := strconv.Atoi(fs[len(fs)-2])
				hi, err2 := strconv.Atoi(fs[len(fs)-1])
				ex, err3 := ParseSpecExpr(strings.Join(fs[:len(fs)-2], " "))
				if err1 != nil || err2 != nil || err3 != nil {
					return fmt.Errorf("%s:%d: bad cases clause", file, rc.line)
				}
				cur.Cases = &CaseSplit{Expr: ex, Lo: lo, Hi: hi}
			case "fnparam":
				// fnparam f(a, b): <expr over a, b, ret> — contract of a function-typed parameter:
				// assumed for calls through f in the body, proved of the function passed at
				// every call site of this function
				m := fnparamRe.FindStringSubmatch(rc.text)
				if m == nil {
					return fmt.Errorf("%s:%d: fnparam name(params): expr", file, rc.line)
				}
				ex, err := ParseSpecExpr(m[3])
				if err != nil {
					return fmt.Errorf("%s:%d: %v", file, rc.line, err)
				}
				var ps []string
				for _, a := range strings.Split(m[2], ",") {
					ps = append(ps, strings.TrimSpace(a))
				}
				if cur.FnParams == nil {
					cur.FnParams = map[string]*FnParamSpec{}
				}
				cur.FnParams[m[1]] = &FnParamSpec{Name: m[1], Params: ps, Clause: Clause{Label: m[1], Src: m[3], Expr: ex, Line: rc.line}}
			case "instantiate":
				var targs []string
				for _, a := range strings.Split(rc.text, ",") {
					targs = append(targs, strings.TrimSpace(a))
				}
				cur.Instantiate = append(cur.Instantiate, targs)
			case "requires":
				cl, err := mkClause(rc)
				if err != nil {
					return err
				}
				if cl.Label == "" {
					cl.Label = fmt.Sprint(len(cur.Requires) + 1)
				}
				cur.Requires = append(cur.Requires, cl)
			case "typing":
				// typing forall ... :: guard ==> allocated(e) && ...: a fact true of every Go state
				// (a pointer stored in reachable memory lies below the allocation frontier);
				// assumed at entry, never asserted at call sites, listed as an assumption
				cl, err := mkClause(rc)
				if err != nil {
					return err
				}
				if !isTypingFact(cl.Expr) {
					return fmt.Errorf("%s:%d: a typing clause must have the shape [forall ... ::] [guard ==>] allocated(e) [&& allocated(e')...]", file, rc.line)
				}
				cur.Typing = append(cur.Typing, cl)
			case "ensures":
				cl, err := mkClause(rc)
				if err != nil {
					return err
				}
				if cl.Label == "" {
					cl.Label = fmt.Sprint(len(cur.Ensures) + 1)
				}
				cur.Ensures = append(cur.Ensures, cl)
				if cl.GhostDef {
					// the ghost cells a definition speaks about belong to the function's frame
					for _, m := range ghostNameRe.FindAllStringSubmatch(cl.Src, -1) {
						cur.GhostMods = append(cur.GhostMods, m[1])
					}
				}
			case "assigns":
				cur.AssignsGiven = true
				if strings.TrimSpace(rc.text) != "" && strings.TrimSpace(rc.text) != "nothing" {
					for _, part := range splitTopLevel(rc.text, ',') {
						cl, err := mkClause(rawClause{"assigns", part, rc.line})
						if err != nil {
							return err
						}
						cur.Assigns = append(cur.Assigns, cl)
					}
				}
			case "loop":
				n, err := strconv.Atoi(strings.TrimSpace(rc.text))
				if strings.TrimSpace(rc.text) == "all" {
					// `loop all`: the invariant of every loop of the function that has no spec of
					// its own (ordinal 0)
					n, err = 0, nil
				}
				if err != nil {
					return fmt.Errorf("%s:%d: bad loop ordinal", file, rc.line)
				}
				curLoop = &LoopSpec{Ordinal: n}
				cur.Loops[n] = curLoop
			case "invariant":
				if curLoop == nil {
					return fmt.Errorf("%s:%d: invariant outside loop", file, rc.line)
				}
				cl, err := mkClause(rc)
				if err != nil {
					return err
				}
				if cl.Label == "" {
					cl.Label = fmt.Sprint(len(curLoop.Invariants) + 1)
				}
				curLoop.Invariants = append(curLoop.Invariants, cl)
			case "assert":
				// assert before|after Callee#k: <expr> — an assertion at a call site of the function body
				// (k-th call of a function/method named Callee, in source order of execution)
				m := assertRe.FindStringSubmatch(rc.text)
				if m == nil {
					return fmt.Errorf("%s:%d: assert before|after Name#k: expr", file, rc.line)
				}
				ex, err := ParseSpecExpr(m[4])
				if err != nil {
					return fmt.Errorf("%s:%d: %v", file, rc.line, err)
				}
				site := m[1] + " " + m[2] + "#" + m[3]
				cur.Asserts[site] = append(cur.Asserts[site], Clause{Label: fmt.Sprintf("%s-%s#%s.%d", m[1], m[2], m[3], len(cur.Asserts[site])+1), Src: m[4], Expr: ex, Line: rc.line})
			case "cut":
				// cut before Callee#k: <expr> — a cut point before the top-level statement that
				// holds the k-th call (source order) of Callee: the assertion is proved, then the
				// path history is forgotten and only the assertion is assumed
				m := assertRe.FindStringSubmatch(rc.text)
				if m == nil || m[1] != "before" {
					return fmt.Errorf("%s:%d: cut before Name#k: expr", file, rc.line)
				}
				cl, err := mkClause(rawClause{"cut", m[4], rc.line})
				if err != nil {
					return err
				}
				site := m[2] + "#" + m[3]
				if cur.Cuts == nil {
					cur.Cuts = map[string][]Clause{}
				}
				if cl.Label == "" {
					cl.Label = fmt.Sprint(len(cur.Cuts[site]) + 1)
				}
				cl.Label = site + "." + cl.Label
				cur.Cuts[site] = append(cur.Cuts[site], cl)
			case "stepinv":
				// stepinv <expr>: an invariant on shared state that every atomic step of the body
				// must re-establish: proved after each call of a sync or sync/atomic operation
				cl, err := mkClause(rc)
				if err != nil {
					return err
				}
				if cl.Label == "" {
					cl.Label = fmt.Sprint(len(cur.StepInvs) + 1)
				}
				cur.StepInvs = append(cur.StepInvs, cl)
			case "hint":
				// hint <expr>: an assertion proved and then assumed — at the start of the loop body
				// (inside `loop k`) or at the function's exit; used to put lemma instances in front of the solver
				cl, err := mkClause(rc)
				if err != nil {
					return err
				}
				if curLoop != nil {
					if cl.Label == "" {
						cl.Label = fmt.Sprint(len(curLoop.Hints) + 1)
					}
					curLoop.Hints = append(curLoop.Hints, cl)
				} else {
					if cl.Label == "" {
						cl.Label = fmt.Sprint(len(cur.ExitHints) + 1)
					}
					cur.ExitHints = append(cur.ExitHints, cl)
				}
			case "decreases":
				cl, err := mkClause(rc)
				if err != nil {
					return err
				}
				if curLoop == nil {
					cur.FnDecreases = &cl // measure for recursive calls
				} else {
					curLoop.Decreases = &cl
				}
			}
		}
	}
	return nil
}

// isTypingFact: [forall ... ::] [guard ==>] allocated(e) [&& ...]
func isTypingFact(e ast.Expr) bool {
	e = unparen(e)
	if ce, ok := e.(*ast.CallExpr); ok {
		if id, ok := ce.Fun.(*ast.Ident); ok && id.Name == "forall" && len(ce.Args) >= 1 {
			return isTypingFact(ce.Args[len(ce.Args)-1])
		}
		if id, ok := ce.Fun.(*ast.Ident); ok && id.Name == "allocated" {
			return true
		}
		return false
	}
	if be, ok := e.(*ast.BinaryExpr); ok {
		if be.Op == tokImplies {
			return isTypingFact(be.Y)
		}
		if be.Op == token.LAND {
			return isTypingFact(be.X) && isTypingFact(be.Y)
		}
	}
	return false
}

func splitTopLevel(s string, sep rune) []string {
	var out []string
	d := 0
	start := 0
	for i, c := range s {
		switch c {
		case '(', '[':
			d++
		case ')', ']':
			d--
		default:
			if c == sep && d == 0 {
				out = append(out, strings.TrimSpace(s[start:i]))
				start = i + 1
			}
		}
	}
	out = append(out, strings.TrimSpace(s[start:]))
	return out
}

var funcKeyRe = regexp.MustCompile(`^(?:([A-Za-z0-9_/\.\-]+)\.)?(?:\((\*?)([A-Za-z0-9_]+)\)\.)?([A-Za-z0-9_#"\+\-\*/%<>=!~\[\]&\|\^]+)\s*(?:\(([^)]*)\))?\s*(?:\(([^)]*)\)|([A-Za-z0-9_]+))?$`)

// parseFuncKey parses `[pkgpath.](Recv).Name[(p1, p2)] [(r1, r2)]`.
func parseFuncKey(s, pkgPath string) (*Contract, error) {
	s = strings.TrimSpace(s)
	m := funcKeyRe.FindStringSubmatch(s)
	if m == nil {
		return nil, fmt.Errorf("bad func key %q", s)
	}
	pkg := pkgPath
	if m[1] != "" {
		pkg = m[1]
	}
	c := &Contract{PkgPath: pkg}
	if m[3] != "" {
		c.Key = fmt.Sprintf("%s.(%s%s).%s", pkg, m[2], m[3], m[4])
	} else {
		c.Key = pkg + "." + m[4]
	}
	if strings.TrimSpace(m[5]) != "" {
		for _, p := range strings.Split(m[5], ",") {
			c.ParamNames = append(c.ParamNames, strings.TrimSpace(p))
		}
	}
	res := m[6]
	if res == "" {
		res = m[7]
	}
	if strings.TrimSpace(res) != "" {
		for _, p := range strings.Split(res, ",") {
			c.ResultNames = append(c.ResultNames, strings.TrimSpace(p))
		}
	}
	return c, nil
}

var specFnRe = regexp.MustCompile(`^(rec\s+)?fn\s+([A-Za-z_][A-Za-z0-9_]*)\s*\(([^)]*)\)\s*([^=]+?)\s*=\s*(.*)$`)

func parseSpecFn(s, pkgPath string) (*SpecFn, error) {
	m := specFnRe.FindStringSubmatch(strings.TrimSpace(s))
	if m == nil {
		return nil, fmt.Errorf("bad spec fn %q", s)
	}
	sf := &SpecFn{Name: m[2], PkgPath: pkgPath, Src: m[5], Rec: m[1] != ""}
	if strings.TrimSpace(m[3]) != "" {
		for _, p := range strings.Split(m[3], ",") {
			fs := strings.Fields(strings.TrimSpace(p))
			if len(fs) != 2 {
				return nil, fmt.Errorf("bad spec fn param %q", p)
			}
			sf.Params = append(sf.Params, fs[0])
			te, err := ParseSpecType(fs[1])
			if err != nil {
				return nil, err
			}
			sf.PTypes = append(sf.PTypes, te)
		}
	}
	rt, err := ParseSpecType(strings.TrimSpace(m[4]))
	if err != nil {
		return nil, err
	}
	sf.RType = rt
	body, err := ParseSpecExpr(m[5])
	if err != nil {
		return nil, err
	}
	sf.Body = body
	return sf, nil
}

func ParseSpecType(s string) (e ast.Expr, err error) {
	defer func() {
		if r := recover(); r != nil {
			err = fmt.Errorf("bad type %q", s)
		}
	}()
	x, err2 := ParseSpecExpr(s)
	if err2 != nil {
		return nil, err2
	}
	return x, nil
}

// ---------------------------------------------------------------------------
// known findings

type Finding struct {
	Kind       string // "finding" | "fixed"
	Property   string
	Obligation string // obligation name (function#kind:label), may end with * for prefix
	When       string // spec predicate over the function's entry state; "" = whole obligation
	WhenExpr   ast.Expr
	Text       string
	Commit     string
}

var findingKV = regexp.MustCompile(`([a-z]+)=("(?:[^"\\]|\\.)*"|\S+)`)

func (e *Engine) loadFindings(path string) error {
	b, err := os.ReadFile(path)
	if err != nil {
		if os.IsNotExist(err) {
			return nil
		}
		return err
	}
	for i, l := range strings.Split(string(b), "\n") {
		l = strings.TrimSpace(l)
		if l == "" || strings.HasPrefix(l, "#") {
			continue
		}
		f := &Finding{}
		switch {
		case strings.HasPrefix(l, "finding:"):
			f.Kind = "finding"
			l = strings.TrimSpace(l[len("finding:"):])
		case strings.HasPrefix(l, "fixed:"):
			f.Kind = "fixed"
			l = strings.TrimSpace(l[len("fixed:"):])
		default:
			return fmt.Errorf("%s:%d: bad line", path, i+1)
		}
		for _, m := range findingKV.FindAllStringSubmatch(l, -1) {
			v := m[2]
			if strings.HasPrefix(v, `"`) {
				u, err := strconv.Unquote(v)
				if err == nil {
					v = u
				}
			}
			switch m[1] {
			case "property":
				f.Property = v
			case "obligation":
				f.Obligation = v
			case "when":
				f.When = v
			case "text":
				f.Text = v
			case "commit":
				f.Commit = v
			}
		}
		if f.When != "" {
			ex, err := ParseSpecExpr(f.When)
			if err != nil {
				return fmt.Errorf("%s:%d: %v", path, i+1, err)
			}
			f.WhenExpr = ex
		}
		e.Findings = append(e.Findings, f)
	}
	return nil
}

func (e *Engine) findingsFor(obl string) []*Finding {
	var out []*Finding
	for _, f := range e.Findings {
		if f.Kind != "finding" {
			continue
		}
		if f.Obligation == obl {
			out = append(out, f)
		}
	}
	return out
}

func unparenExpr(e ast.Expr) ast.Expr {
	for {
		p, ok := e.(*ast.ParenExpr)
		if !ok {
			return e
		}
		e = p.X
	}
}
