package vc

import (
	"fmt"
	"go/ast"
	"go/token"
	"go/types"
	"sort"
	"strings"
)

// specEnvAt: spec environment resolving names in the scope of the function
// under verification at position pos (used for loop invariants and asserts).
func (c *FnCtx) specEnvAt(st *State, pos token.Pos) *Env {
	pkg := c.Fn.Pkg
	lookup := func(name string) (Val, bool) {
		// innermost scope at pos
		if sc := pkg.Types.Scope().Innermost(pos); sc != nil {
			for s := sc; s != nil && s != pkg.Types.Scope(); s = s.Parent() {
				if o := s.Lookup(name); o != nil {
					if v, ok := o.(*types.Var); ok {
						if val, ok := st.vars[v]; ok {
							if c.boxed[v] {
								// address-taken local: the variable lives in memory
								return c.loadFrom(&Env{st: st, spec: true}, val.T, v.Type()), true
							}
							return val, true
						}
					}
				}
			}
		}
		if v, ok := c.paramVals[name]; ok {
			// parameters that are still live are found above; this is the fallback (entry value)
			return v, true
		}
		return Val{}, false
	}
	return &Env{st: st, spec: true, old: c.entry, lookup: lookup, spkg: pkg.Types}
}

func (c *FnCtx) specIdent(env *Env, x *ast.Ident) Val {
	if v, ok := env.bound[x.Name]; ok {
		return v
	}
	if env.lookup != nil {
		if v, ok := env.lookup(x.Name); ok {
			return v
		}
	}
	switch x.Name {
	case "true":
		return boolVal("true")
	case "false":
		return boolVal("false")
	case "nil":
		return Val{T: "nil", Typ: types.Typ[types.UntypedNil]}
	}
	if env.spkg != nil {
		if o := env.spkg.Scope().Lookup(x.Name); o != nil {
			return c.specObj(env, o, x)
		}
	}
	if o := types.Universe.Lookup(x.Name); o != nil {
		if cst, ok := o.(*types.Const); ok {
			return c.constVal(cst.Val(), cst.Type())
		}
	}
	c.unsup(x, "spec: unknown identifier %q", x.Name)
	return Val{}
}

func (c *FnCtx) specObj(env *Env, o types.Object, n ast.Node) Val {
	switch y := o.(type) {
	case *types.Const:
		v := c.constVal(y.Val(), y.Type())
		return v
	case *types.Var:
		return c.globalVar(env, y)
	}
	c.unsup(n, "spec: identifier %s is a %T", o.Name(), o)
	return Val{}
}

// specType resolves a type expression in spec mode.
func (c *FnCtx) specType(env *Env, e ast.Expr) types.Type {
	switch x := e.(type) {
	case *ast.ParenExpr:
		return c.specType(env, x.X)
	case *ast.StarExpr:
		return types.NewPointer(c.specType(env, x.X))
	case *ast.ArrayType:
		return types.NewSlice(c.specType(env, x.Elt))
	case *ast.Ident:
		if x.Name == "mathint" {
			return untypedInt
		}
		if env.spkg != nil {
			if o, ok := env.spkg.Scope().Lookup(x.Name).(*types.TypeName); ok {
				return o.Type()
			}
		}
		if o, ok := types.Universe.Lookup(x.Name).(*types.TypeName); ok {
			return o.Type()
		}
		// search all repo packages (unique name)
		var found types.Type
		for _, p := range c.E.All {
			if !strings.HasPrefix(p.PkgPath, RepoModule) {
				continue
			}
			if o, ok := p.Types.Scope().Lookup(x.Name).(*types.TypeName); ok {
				if found != nil {
					c.unsup(e, "spec: ambiguous type %s", x.Name)
				}
				found = o.Type()
			}
		}
		if found != nil {
			return found
		}
	case *ast.SelectorExpr:
		if id, ok := x.X.(*ast.Ident); ok {
			// first the packages the spec's own package imports (what `pkg.T` means in its source)
			if env.spkg != nil {
				for _, imp := range env.spkg.Imports() {
					if imp.Name() == id.Name {
						if o, ok := imp.Scope().Lookup(x.Sel.Name).(*types.TypeName); ok {
							return o.Type()
						}
					}
				}
			}
			// then any loaded package of that name, repo packages first, in a fixed order
			var paths []string
			for path, p := range c.E.All {
				if p.Types.Name() == id.Name {
					paths = append(paths, path)
				}
			}
			sort.Slice(paths, func(i, j int) bool {
				ri, rj := strings.HasPrefix(paths[i], RepoModule), strings.HasPrefix(paths[j], RepoModule)
				if ri != rj {
					return ri
				}
				return paths[i] < paths[j]
			})
			for _, path := range paths {
				if o, ok := c.E.All[path].Types.Scope().Lookup(x.Sel.Name).(*types.TypeName); ok {
					return o.Type()
				}
			}
		}
	}
	c.unsup(e, "spec: unknown type")
	return nil
}

func (c *FnCtx) isSpecTypeExpr(env *Env, e ast.Expr) (t types.Type, ok bool) {
	defer func() {
		if r := recover(); r != nil {
			if _, isU := r.(unsupported); isU {
				ok = false
				return
			}
			panic(r)
		}
	}()
	switch x := unparen(e).(type) {
	case *ast.Ident:
		if _, b := env.bound[x.Name]; b {
			return nil, false
		}
		if env.lookup != nil {
			if _, b := env.lookup(x.Name); b {
				return nil, false
			}
		}
		if c.E.SpecFns[x.Name] != nil {
			return nil, false
		}
		if env.spkg != nil {
			if o := env.spkg.Scope().Lookup(x.Name); o != nil {
				if tn, isT := o.(*types.TypeName); isT {
					return tn.Type(), true
				}
				return nil, false
			}
		}
		if o, isT := types.Universe.Lookup(x.Name).(*types.TypeName); isT {
			return o.Type(), true
		}
		return nil, false
	case *ast.StarExpr, *ast.ArrayType:
		return c.specType(env, x), true
	case *ast.SelectorExpr:
		if id, isId := x.X.(*ast.Ident); isId {
			if _, b := env.bound[id.Name]; b {
				return nil, false
			}
			if env.lookup != nil {
				if _, b := env.lookup(id.Name); b {
					return nil, false
				}
			}
			for _, p := range c.E.All {
				if p.Types.Name() == id.Name {
					if o, isT := p.Types.Scope().Lookup(x.Sel.Name).(*types.TypeName); isT {
						return o.Type(), true
					}
				}
			}
		}
	}
	return nil, false
}

func (c *FnCtx) specSelector(env *Env, x *ast.SelectorExpr) Val {
	// package-qualified name?
	if id, ok := x.X.(*ast.Ident); ok {
		_, b1 := env.bound[id.Name]
		b2 := false
		if env.lookup != nil {
			_, b2 = env.lookup(id.Name)
		}
		if !b1 && !b2 {
			isLocalPkgObj := env.spkg != nil && env.spkg.Scope().Lookup(id.Name) != nil
			if !isLocalPkgObj {
				for _, p := range c.E.All {
					if p.Types.Name() == id.Name {
						if o := p.Types.Scope().Lookup(x.Sel.Name); o != nil {
							return c.specObj(env, o, x)
						}
					}
				}
			}
		}
	}
	base := c.eval(env, x.X)
	return c.specField(env, base, x.Sel.Name, x)
}

func (c *FnCtx) specField(env *Env, base Val, name string, n ast.Node) Val {
	t := c.subst(base.Typ)
	if t == nil {
		c.unsup(n, "spec: field %s of untyped value", name)
	}
	obj, index, _ := types.LookupFieldOrMethod(t, true, nil, name)
	if obj == nil {
		// unexported fields need the package
		if named := namedOf(t); named != nil && named.Obj().Pkg() != nil {
			obj, index, _ = types.LookupFieldOrMethod(t, true, named.Obj().Pkg(), name)
		}
	}
	if f, ok := obj.(*types.Var); ok && f.IsField() {
		return c.fieldPath(env, base, index, n)
	}
	c.unsup(n, "spec: no field %s in %s", name, t)
	return Val{}
}

func namedOf(t types.Type) *types.Named {
	t = types.Unalias(t)
	if p, ok := t.(*types.Pointer); ok {
		t = types.Unalias(p.Elem())
	}
	n, _ := t.(*types.Named)
	return n
}

func (c *FnCtx) specCall(env *Env, x *ast.CallExpr) Val {
	fun := unparen(x.Fun)
	if id, ok := fun.(*ast.Ident); ok {
		switch id.Name {
		case "old":
			if env.old == nil {
				c.unsup(x, "spec: old() not available here")
			}
			oenv := *env
			oenv.st = env.old
			return c.eval(&oenv, x.Args[0])
		case "forall", "exists":
			return c.specQuant(env, id.Name, x)
		case "ite":
			cnd := c.eval(env, x.Args[0])
			a := c.eval(env, x.Args[1])
			b := c.eval(env, x.Args[2])
			if isNilVal(a) {
				a = c.coerce(a, b.Typ)
			}
			if isNilVal(b) {
				b = c.coerce(b, a.Typ)
			}
			t := a.Typ
			if bt, ok := t.(*types.Basic); ok && bt.Info()&types.IsUntyped != 0 {
				t = b.Typ
			}
			return Val{T: ite(cnd.T, a.T, b.T), Typ: t}
		case "len", "cap":
			v := c.eval(env, x.Args[0])
			r := c.lenCap(env, id.Name, v, x)
			r.Typ = untypedInt
			return r
		case "bigval":
			p := c.eval(env, x.Args[0])
			return mathInt(c.ghostGet(env.st, "bigval", p.T))
		case "ghost":
			name := x.Args[0].(*ast.Ident).Name
			p := c.eval(env, x.Args[1])
			return mathInt(c.ghostGet(env.st, name, p.T))
		case "ediv", "emod":
			a := c.eval(env, x.Args[0])
			b := c.eval(env, x.Args[1])
			if id.Name == "ediv" {
				return mathInt(c.divT(a.T, b.T))
			}
			return mathInt(app("mod", a.T, b.T))
		case "tdiv", "tmod", "absI", "minI", "maxI", "pow2":
			var as []string
			for _, a := range x.Args {
				as = append(as, c.eval(env, a).T)
			}
			if id.Name == "pow2" {
				return mathInt(c.pow2(as[0]))
			}
			return mathInt(app(id.Name, as...))
		case "wrapS8", "wrapS16", "wrapS32", "wrapS64", "wrapU8", "wrapU16", "wrapU32", "wrapU64":
			return mathInt(app(id.Name, c.eval(env, x.Args[0]).T))
		case "wrapas", "bitsof", "issigned":
			// wrapas(x, e): e reduced to the machine integer type of x (two's complement);
			// bitsof(x) / issigned(x): width and signedness of that type.  For generic
			// functions the type is the instantiated one.
			v := c.eval(env, x.Args[0])
			bits, signed, ok := intInfo(c.subst(v.Typ))
			if !ok || bits == 0 {
				c.unsup(x, "%s of a non machine integer", id.Name)
				return Val{}
			}
			switch id.Name {
			case "bitsof":
				return mathInt(fmt.Sprint(bits))
			case "issigned":
				if signed {
					return boolVal("true")
				}
				return boolVal("false")
			}
			e := c.eval(env, x.Args[1])
			fn := fmt.Sprintf("wrapU%d", bits)
			if signed {
				fn = fmt.Sprintf("wrapS%d", bits)
			}
			return Val{T: app(fn, e.T), Typ: v.Typ}
		case "chat", "chlen", "chclosed":
			// channel ghost state (chan.go): chlen(c) values queued, chat(c, i) the i-th of them
			// counted from the one received next, chclosed(c)
			ch := c.eval(env, x.Args[0])
			elem := c.chanElemType(ch, x)
			c.chanFacts(env.st, ch)
			h, t := c.ghostGet(env.st, "chhead", ch.T), c.ghostGet(env.st, "chtail", ch.T)
			switch id.Name {
			case "chlen":
				return mathInt(app("-", t, h))
			case "chclosed":
				return boolVal(eq(c.ghostGet(env.st, "chclosed", ch.T), "1"))
			}
			i := c.eval(env, x.Args[1])
			_, arr := c.chanQueue(env.st, elem)
			return Val{T: app("select", arr, c.chanPos(ch.T, app("+", h, i.T))), Typ: elem}
		case "atlock":
			// atlock(e): e in the state right after the function's most recent acquisition of a
			// monitor lock (what the critical section found), see monitor.go
			if c.lastAcq == nil {
				c.unsup(x, "atlock(): no monitor lock was acquired on this path")
			}
			oenv := *env
			oenv.st = c.lastAcq.st
			return c.eval(&oenv, x.Args[0])
		case "same":
			// same(a, b): identical representation (for strings: same bytes at the same address,
			// which implies Go's ==, not the other way round)
			a := c.eval(env, x.Args[0])
			b := c.eval(env, x.Args[1])
			return boolVal(eq(a.T, b.T))
		case "allocated":
			// allocated(a): the address lies below the allocation frontier of the current state
			// (every pointer a Go program holds does)
			p := c.eval(env, x.Args[0])
			return boolVal(app("<", p.T, env.st.alloc))
		case "live":
			// live(p): p is the base address of an allocated object of p's static pointee type
			p := c.eval(env, x.Args[0])
			pt, isP := c.subst(p.Typ).Underlying().(*types.Pointer)
			if !isP {
				c.unsup(x, "live() of a non-pointer")
				return Val{}
			}
			c.useObjTy()
			return boolVal(and(app(">", p.T, "0"), app("<", p.T, env.st.alloc), eq(app("objty", p.T), c.typeTag(pt.Elem()))))
		case "Z":
			v := c.eval(env, x.Args[0])
			return mathInt(v.T)
		case "typeis":
			// typeis(ifaceOrValue, T): dynamic type test
			v := c.eval(env, x.Args[0])
			t := c.specType(env, x.Args[1])
			return boolVal(eq(app("if_tab", v.T), c.typeTag(t)))
		case "ifaceptr":
			// ifaceptr(x): the data pointer held by an interface value (0 for a nil interface AND
			// for an interface holding a typed nil pointer)
			v := c.eval(env, x.Args[0])
			return mathInt(app("if_ptr", v.T))
		case "ptrint":
			// ptrint(p): the address held by a pointer, as a mathematical integer (ghost keys)
			v := c.eval(env, x.Args[0])
			return mathInt(v.T)
		case "tagof":
			t := c.specType(env, x.Args[0])
			return mathInt(c.typeTag(t))
		case "fresh":
			// fresh(p): p was allocated during the call
			p := c.eval(env, x.Args[0])
			if env.old == nil {
				c.unsup(x, "fresh() outside postcondition")
			}
			return boolVal(and(app(">=", p.T, env.old.alloc), app(">", p.T, "0")))
		case "fst", "snd":
			v := c.eval(env, x.Args[0])
			if len(v.Tuple) < 2 {
				c.unsup(x, "%s of a non-tuple", id.Name)
			}
			if id.Name == "fst" {
				return v.Tuple[0]
			}
			return v.Tuple[1]
		case "sliceptr":
			s := c.eval(env, x.Args[0])
			return mathInt(app("sl_ptr", s.T))
		case "freshSlice":
			// freshSlice(s): the backing array of s was allocated during the call (shares no
			// storage with anything that existed before), or s has no storage at all
			s := c.eval(env, x.Args[0])
			if env.old == nil {
				c.unsup(x, "freshSlice() outside postcondition")
			}
			return boolVal(or(app(">=", app("sl_ptr", s.T), env.old.alloc), eq(app("sl_cap", s.T), "0")))
		case "elem":
			// elem(s, i): i-th element of slice s without bounds obligation
			s := c.eval(env, x.Args[0])
			i := c.eval(env, x.Args[1])
			return c.indexVal(env, s, i, x)
		case "load":
			// load(T, addr): value of type T at a raw address
			t := c.specType(env, x.Args[0])
			a := c.eval(env, x.Args[1])
			return c.loadFrom(env, a.T, t)
		case "sizeof":
			t := c.specType(env, x.Args[0])
			return mathInt(fmt.Sprint(c.sizeof(t)))
		case "f64bits":
			v := c.eval(env, x.Args[0])
			tb, _ := c.fpBits(64)
			return mathInt(app(tb, v.T))
		case "real":
			v := c.eval(env, x.Args[0])
			// real(x): the mathematical value of an integer or of a finite float, as an SMT Real
			if fb, isF := isFloat(c.subst(v.Typ)); isF && v.Typ != untypedInt {
				// through the order embedding of fpabs.go
				return Val{T: c.f2rOf(v.T, fb), Typ: mathRealT}
			}
			return Val{T: app("to_real", v.T), Typ: mathRealT}
		case "isNaN":
			v := c.eval(env, x.Args[0])
			return boolVal(app("fp.isNaN", v.T))
		case "isInf":
			v := c.eval(env, x.Args[0])
			return boolVal(app("fp.isInfinite", v.T))
		case "streq":
			a := c.eval(env, x.Args[0])
			b := c.eval(env, x.Args[1])
			return boolVal(c.strEq(a.T, b.T))
		case "mapHas":
			m := c.eval(env, x.Args[0])
			k := c.eval(env, x.Args[1])
			_, ok := c.mapGet(env, m, k, c.subst(m.Typ).Underlying().(*types.Map))
			return boolVal(ok)
		case "uf":
			// uf(name, args...): uninterpreted Int-valued function (abstraction of external behaviour)
			name := "uf_" + x.Args[0].(*ast.Ident).Name
			var as, sorts []string
			for _, a := range x.Args[1:] {
				v := c.eval(env, a)
				as = append(as, v.T)
				sorts = append(sorts, c.sortOf(orInt(v.Typ)))
			}
			if !c.declSet[name] {
				c.declSet[name] = true
				c.decls = append(c.decls, fmt.Sprintf("(declare-fun %s (%s) Int)", name, strings.Join(sorts, " ")))
			}
			return mathInt(app(name, as...))
		case "ufb":
			name := "ufb_" + x.Args[0].(*ast.Ident).Name
			var as, sorts []string
			for _, a := range x.Args[1:] {
				v := c.eval(env, a)
				as = append(as, v.T)
				sorts = append(sorts, c.sortOf(orInt(v.Typ)))
			}
			if !c.declSet[name] {
				c.declSet[name] = true
				c.decls = append(c.decls, fmt.Sprintf("(declare-fun %s (%s) Bool)", name, strings.Join(sorts, " ")))
			}
			return boolVal(app(name, as...))
		}
		if sf := c.E.SpecFns[id.Name]; sf != nil {
			_, b1 := env.bound[id.Name]
			if !b1 {
				return c.specFnCall(env, sf, x)
			}
		}
	}
	// conversion?
	if t, ok := c.isSpecTypeExpr(env, fun); ok && len(x.Args) == 1 {
		v := c.eval(env, x.Args[0])
		if isNilVal(v) {
			return c.zero(t)
		}
		// integer conversions in specs do not wrap
		if _, _, isI := intInfo(c.subst(t)); isI {
			if _, _, srcI := intInfo(c.subst(orInt(v.Typ))); srcI {
				return Val{T: v.T, Typ: t}
			}
		}
		return c.convert(env, v, t, x)
	}
	// real Go function or method, evaluated by inlining its body
	return c.specGoCall(env, x)
}

func orInt(t types.Type) types.Type {
	if t == nil {
		return untypedInt
	}
	return t
}

func (c *FnCtx) specQuant(env *Env, q string, x *ast.CallExpr) Val {
	n := len(x.Args)
	body := x.Args[n-1]
	nb := map[string]Val{}
	for k, v := range env.bound {
		nb[k] = v
	}
	var binders []string
	var guards []string
	for i := 0; i+1 < n-1; i += 2 {
		name := x.Args[i].(*ast.Ident).Name
		t := c.specType(env, x.Args[i+1])
		c.nfresh++
		smtName := fmt.Sprintf("%s!q%d", name, c.nfresh)
		binders = append(binders, fmt.Sprintf("(%s %s)", smtName, c.sortOf(t)))
		vt := t
		if _, _, isI := intInfo(t); isI {
			// bound integer variables are mathematical but range-restricted to their type
			if inv := c.typeInv(smtName, t, env.st); inv != "true" {
				guards = append(guards, inv)
			}
		} else if _, isStruct := c.subst(t).Underlying().(*types.Struct); isStruct {
			// struct-sorted binders range over all values of the sort: memory cells read under
			// quantifiers carry no typing facts (see below), so a guard here would silently
			// exempt them from the quantified statement
		} else if inv := c.typeInv(smtName, t, env.st); inv != "true" {
			guards = append(guards, inv)
		}
		nb[name] = Val{T: smtName, Typ: vt}
	}
	nenv := *env
	nenv.bound = nb
	// facts generated while evaluating the body (type invariants of reads) may mention bound variables;
	// collect them and put them inside the quantifier
	nf := len(c.facts)
	c.noNaming++
	b := c.eval(&nenv, body)
	c.noNaming--
	var inner []string
	var keep []string
	for _, f := range c.facts[nf:] {
		mentions := false
		for _, v := range nb {
			if strings.Contains(v.T, "!q") && strings.Contains(f, v.T) {
				mentions = true
			}
		}
		if mentions {
			inner = append(inner, f)
		} else {
			keep = append(keep, f)
		}
	}
	c.facts = append(c.facts[:nf], keep...)
	g := and(guards...)
	// typing facts of the memory cells read under the quantifier (ranges of stored integers,
	// allocation bounds of stored pointers) are assumptions about well-typed memory; they are
	// dropped here rather than quantified: sound (fewer assumptions) and much cheaper for the solvers
	_ = inner
	var t string
	if q == "forall" {
		t = fmt.Sprintf("(forall (%s) %s)", strings.Join(binders, " "), implies(g, b.T))
	} else {
		t = fmt.Sprintf("(exists (%s) %s)", strings.Join(binders, " "), and(g, b.T))
	}
	return boolVal(t)
}

func (c *FnCtx) specFnCall(env *Env, sf *SpecFn, x *ast.CallExpr) Val {
	if len(x.Args) != len(sf.Params) {
		c.unsup(x, "spec fn %s arity", sf.Name)
	}
	if c.specDepth > 40 {
		c.unsup(x, "spec fn recursion too deep in %s", sf.Name)
	}
	spkg := env.spkg
	if sf.PkgPath != "" {
		if p := c.E.All[sf.PkgPath]; p != nil {
			spkg = p.Types
		}
	}
	tenv := &Env{st: env.st, spec: true, old: env.old, spkg: spkg}
	nb := map[string]Val{}
	var args []Val
	for i, a := range x.Args {
		v := c.eval(env, a)
		pt := c.specType(tenv, sf.PTypes[i])
		if isNilVal(v) {
			v = c.zero(pt)
		}
		v.Typ = pt
		if _, _, isI := intInfo(pt); isI {
			v.Typ = pt
		}
		nb[sf.Params[i]] = v
		args = append(args, v)
	}
	rt := c.specType(tenv, sf.RType)
	if sf.Rec {
		return c.specRecCall(env, sf, args, rt, tenv)
	}
	nenv := &Env{st: env.st, spec: true, old: env.old, bound: nb, spkg: spkg}
	c.specDepth++
	r := c.eval(nenv, sf.Body)
	c.specDepth--
	if isNilVal(r) {
		r = c.zero(rt)
	}
	r.Typ = rt
	return r
}

// specRecCall: recursive spec functions become define-fun-rec over their (pure) parameters.
func (c *FnCtx) specRecCall(env *Env, sf *SpecFn, args []Val, rt types.Type, tenv *Env) Val {
	// Recursive spec functions become define-fun-rec.  The heap cells the body reads are
	// passed as extra array parameters (discovered by a first evaluation of the body), so
	// the function denotes a value of the state it is applied in (current, old, loop head…).
	name := "sf_" + sf.Name
	info := c.recInfos[name]
	if info == nil {
		info = &recInfo{prefix: "hp!"}
		c.recInfos[name] = info
		nb := map[string]Val{}
		var ps []string
		for i, p := range sf.Params {
			pt := c.specType(tenv, sf.PTypes[i])
			pn := "p!" + p
			ps = append(ps, fmt.Sprintf("(%s %s)", pn, c.sortOf(pt)))
			nb[p] = Val{T: pn, Typ: pt}
		}
		mk := func() string {
			benv := &Env{st: &State{pc: "true", vars: map[types.Object]Val{}, heap: map[string]string{}, epoch: -2, alloc: "0", hparam: info}, spec: true, bound: nb, spkg: tenv.spkg}
			nf := len(c.facts)
			c.noNaming++
			body := c.eval(benv, sf.Body)
			c.noNaming--
			c.facts = c.facts[:nf]
			return body.T
		}
		mk() // discovery pass: which heap cells does the body read?
		info.final = true
		body := mk()
		for i, k := range info.keys {
			ps = append(ps, fmt.Sprintf("(%s %s)", info.prefix+sanitize(k), info.sorts[i]))
		}
		// Axiomatised with bounded unfolding ("fuel", as Dafny/Boogie do) instead of
		// define-fun-rec: name = name!1 = name!0 denote the same function; a term name(x)
		// unfolds to the body over name!1, name!1(x) to the body over name!0, and name!0 does
		// not unfold.  (z3 5.1.0 answered `unsat` on a satisfiable query that combined
		// define-fun-rec with quantified lemmas — see DESIGN.md — so recfun is avoided.)
		var sorts, vars []string
		for _, p := range ps {
			inner := p[1 : len(p)-1]
			f := strings.Fields(inner)
			vars = append(vars, f[0])
			sorts = append(sorts, strings.TrimSpace(strings.TrimPrefix(inner, f[0])))
		}
		rs := c.sortOf(rt)
		call := func(fn string) string { return app(fn, vars...) }
		subst := func(b, to string) string { return strings.ReplaceAll(b, "("+name+" ", "("+to+" ") }
		binder := strings.Join(ps, " ")
		decl := fmt.Sprintf("(declare-fun %s (%s) %s)\n(declare-fun %s!1 (%s) %s)\n(declare-fun %s!0 (%s) %s)\n", name, strings.Join(sorts, " "), rs, name, strings.Join(sorts, " "), rs, name, strings.Join(sorts, " "), rs)
		decl += fmt.Sprintf("(assert (forall (%s) (! (and (= %s %s) (= %s %s)) :pattern (%s))))\n", binder, call(name), subst(body, name+"!1"), call(name), call(name+"!1"), call(name))
		decl += fmt.Sprintf("(assert (forall (%s) (! (and (= %s %s) (= %s %s)) :pattern (%s))))", binder, call(name+"!1"), subst(body, name+"!0"), call(name+"!1"), call(name+"!0"), call(name+"!1"))
		c.declare(name, decl)
		info.defined = true
	}
	var as []string
	for _, a := range args {
		as = append(as, a.T)
	}
	if info.final {
		for i, k := range info.keys {
			as = append(as, c.heapGet(env.st, k, info.sorts[i], c.heapType[k]))
		}
	}
	return Val{T: app(name, as...), Typ: rt}
}

type recInfo struct {
	prefix  string
	keys    []string
	sorts   []string
	final   bool
	defined bool
}

// specGoCall evaluates a call to a real Go function inside a specification by
// symbolically executing its body (pure functions only: state changes are discarded).
func (c *FnCtx) specGoCall(env *Env, x *ast.CallExpr) Val {
	fun := unparen(x.Fun)
	var fn *types.Func
	var recv *Val
	switch f := fun.(type) {
	case *ast.Ident:
		if env.spkg != nil {
			fn, _ = env.spkg.Scope().Lookup(f.Name).(*types.Func)
		}
		if fn == nil {
			c.unsup(x, "spec: unknown function %s", f.Name)
		}
	case *ast.SelectorExpr:
		// pkg.Func or value.Method
		if id, ok := f.X.(*ast.Ident); ok {
			_, b1 := env.bound[id.Name]
			b2 := false
			if env.lookup != nil {
				_, b2 = env.lookup(id.Name)
			}
			if !b1 && !b2 && (env.spkg == nil || env.spkg.Scope().Lookup(id.Name) == nil) {
				for _, p := range c.E.All {
					if p.Types.Name() == id.Name {
						if o, ok := p.Types.Scope().Lookup(f.Sel.Name).(*types.Func); ok {
							fn = o
						}
					}
				}
			}
		}
		if fn == nil {
			rv := c.eval(env, f.X)
			t := c.subst(rv.Typ)
			var pkg *types.Package
			if nm := namedOf(t); nm != nil {
				pkg = nm.Obj().Pkg()
			}
			obj, index, _ := types.LookupFieldOrMethod(t, true, pkg, f.Sel.Name)
			m, ok := obj.(*types.Func)
			if !ok {
				c.unsup(x, "spec: no method %s on %s", f.Sel.Name, t)
			}
			if len(index) > 1 {
				rv = c.fieldPath(env, rv, index[:len(index)-1], x)
			}
			msig := m.Type().(*types.Signature)
			_, wantPtr := msig.Recv().Type().(*types.Pointer)
			_, havePtr := c.subst(rv.Typ).Underlying().(*types.Pointer)
			if !wantPtr && havePtr {
				rv = c.deref(env, rv, x)
			} else if wantPtr && !havePtr {
				c.unsup(x, "spec: pointer-receiver method on value")
			}
			fn = m
			recv = &rv
		}
	default:
		c.unsup(x, "spec: call form")
	}
	sig := fn.Type().(*types.Signature)
	var args []Val
	for i, a := range x.Args {
		v := c.eval(env, a)
		if i < sig.Params().Len() {
			v = c.specArgConv(env, v, sig.Params().At(i).Type())
		}
		args = append(args, v)
	}
	// contract with `pure` marker: use uninterpreted function of args
	key := FuncKey(fn)
	// evaluate on a scratch copy of the state (pure call)
	scratch := env.st.clone()
	cenv := &Env{st: scratch}
	saveNS := c.noSafety
	c.noSafety = true
	c.inSpec++
	defer func() { c.noSafety = saveNS; c.inSpec-- }()
	if ct := c.E.Contracts[key]; ct != nil && !ct.Inline {
		// a function under contract is used through its contract (pure functions: an
		// uninterpreted function of the arguments, so that two evaluation paths can be compared)
		return c.callFunc(cenv, fn, recv, args, x, nil)
	}
	fi := c.E.ByObj[fn.Origin()]
	if fi == nil || fi.Decl == nil || fi.Decl.Body == nil {
		c.unsup(x, "spec: function %s has no body to evaluate", key)
	}
	// push a frame for the callee's package so that code-mode evaluation resolves names there
	var targs []types.Type
	res := c.inlineCall(cenv, fn, recv, args, x, targs)
	return res
}

func (c *FnCtx) specArgConv(env *Env, v Val, t types.Type) Val {
	t = c.subst(t)
	if _, isTP := t.(*types.TypeParam); isTP {
		return v
	}
	if isNilVal(v) {
		return c.zero(t)
	}
	if _, ok := t.Underlying().(*types.Interface); ok {
		if _, isI := c.subst(orInt(v.Typ)).Underlying().(*types.Interface); !isI {
			return c.toIface(env, v, t)
		}
	}
	return Val{T: v.T, Typ: t}
}
