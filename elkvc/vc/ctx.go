package vc

import (
	"fmt"
	"go/ast"
	"go/token"
	"go/types"
	"math/big"
	"os"
	"sort"
	"strings"

	"golang.org/x/tools/go/packages"
)

// Val is a symbolic Go (or spec) value: one SMT term plus its Go type.
type Val struct {
	T     string
	Typ   types.Type
	Tuple []Val
}

type State struct {
	pc    string
	vars  map[types.Object]Val
	heap  map[string]string
	epoch int
	alloc string
	hparam *recInfo // non-nil: heap reads become parameters (recursive spec functions, lemmas)
}

func (s *State) clone() *State {
	n := &State{pc: s.pc, epoch: s.epoch, alloc: s.alloc, hparam: s.hparam,
		vars: make(map[types.Object]Val, len(s.vars)), heap: make(map[string]string, len(s.heap))}
	for k, v := range s.vars {
		n.vars[k] = v
	}
	for k, v := range s.heap {
		n.heap[k] = v
	}
	return n
}

func (s *State) dead() bool { return s.pc == "false" }

type Obligation struct {
	Name     string
	Kind     string // post | pre | inv-entry | inv-pres | dec | safe | frame | vacuity | finding
	Fn       string
	NDecl    int
	NFact    int
	PC       string
	Goal     string
	Try      bool
	Src      string // the clause text or description
	Result   SolverResult
	Status   string // discharged | failed | undecided | known-finding
	Findings []*Finding
	FindingPresent []bool
	Retried  bool // no solver answered within the limit; decided by the second, longer attempt
	ctx      *FnCtx
	MustFail bool
	Pos      string
	Query    string
	Cases    []string
	findingKs []string
	xDecls   []string
	xFacts   []string
	SkipLo, SkipHi int // facts [SkipLo, SkipHi) are not part of the query (forgotten at a cut point)
	SkipExtra      []int
}

type unsupported struct{ msg string }

func (c *FnCtx) unsup(n ast.Node, format string, args ...any) {
	pos := ""
	if n != nil && n.Pos().IsValid() {
		p := c.E.Fset.Position(n.Pos())
		pos = fmt.Sprintf("%s:%d: ", shortPath(p.Filename), p.Line)
	}
	if os.Getenv("ELKVC_DEBUG") != "" {
		panic(pos + fmt.Sprintf(format, args...))
	}
	panic(unsupported{pos + fmt.Sprintf(format, args...)})
}

func shortPath(p string) string {
	if i := strings.Index(p, "/repo/"); i >= 0 {
		return p[i+6:]
	}
	return p
}

type inlineFrame struct {
	fn      *FuncInfo
	pkg     *packages.Package
	returns []*retRec
	results []*types.Var // named result objects (or synthetic)
	defers  []deferRec
	tsubst  map[*types.TypeParam]types.Type
	label   string
}

type deferRec struct {
	lit  *ast.FuncLit // deferred closure (executed in place at exit)
	call *ast.CallExpr
	fn   Val
	recv *Val
	args []Val
	pkg  *packages.Package
}

type retRec struct {
	st   *State
	vals []Val
	afterCut bool // the return lies after a cut point
	// abrupt exit by a panic (see chan.go): recovered is set once a deferred closure's recover() stopped it
	panicking bool
	recovered bool
	what      string
	node      ast.Node
}

type loopFrame struct {
	breaks    []*State
	continues []*State
	label     string
	alias     string // label of a labelled switch statement (`L: switch`), target of `break L`
}

type FnCtx struct {
	E        *Engine
	Fn       *FuncInfo
	C        *Contract
	decls    []string
	declSet  map[string]bool
	facts    []string
	Obls     []*Obligation
	nfresh   int
	bv       bool
	frames   []*inlineFrame
	loops    []*loopFrame
	entry    *State
	heapSort map[string]string
	heapType map[string]types.Type
	typeTags map[string]int
	tagTypes []types.Type
	Opaque   map[string]bool // callees treated as opaque (havoc)
	Inlined  map[string]bool
	UsedContracts map[string]bool
	Trusted  map[string]bool
	safeN    map[string]int
	loopN    int
	noSafety bool
	objTy    bool // record allocations in the object-type map (the contract uses live())
	stepN          int
	deferPanicking bool // executing a deferred closure of a panicking exit, recover() not yet called
	deferRecovered bool
	monAcqs   map[string]*monAcq // monitor acquisitions by mutex
	lastAcq   *monAcq
	Monitored map[string]bool // monitors whose rely/guarantee rule was applied (evidence)
	specDepth int
	inSpec   int
	paramVals map[string]Val // entry values of parameters by name
	resultObjs []*types.Var
	tsubst   map[*types.TypeParam]types.Type
	instLabel string
	globalsBusy map[types.Object]bool
	callN    map[string]int
	recFns   map[string]bool
	curStmtPos token.Pos
	noNaming int
	siteN    map[string]int
	boxed    map[types.Object]bool // locals whose address is taken: they live in the heap
	recInfos map[string]*recInfo
	recStack []*recInfo
	Pruned   []string // paths ended at an unsupported statement (contracts marked `partial`)
	TypingUsed []string // typing facts assumed at entry (contract clause `typing`)
	// cut points (contract clause `cut before Callee#k: A`): after A is proved the path history
	// is forgotten; obligations created afterwards see the entry facts and the facts after the cut
	nEntryFacts    int
	nEntryDecls    int
	skipLo, skipHi int
	skipExtra      []int // indices of the assumed `requires` facts (forgotten at a cut as well)
	reqFacts       []int
	cutDone        bool
	labelSuffix    string
	switchLabel    string // label of the labelled switch about to be executed
	axiomFacts     []int          // fact indices of the package axioms (dropped from queries that do not mention their symbols)
	namedFacts     map[string]int // fact index of each lemma of `uses` and each package axiom (for `using` lists)
}

func (c *FnCtx) frame() *inlineFrame { return c.frames[len(c.frames)-1] }
func (c *FnCtx) pkg() *packages.Package { return c.frame().pkg }
func (c *FnCtx) info() *types.Info { return c.frame().pkg.TypesInfo }

func (c *FnCtx) fresh(prefix string) string {
	c.nfresh++
	return fmt.Sprintf("%s!%d", sanitize(prefix), c.nfresh)
}

func sanitize(s string) string {
	var b strings.Builder
	for _, r := range s {
		switch {
		case r >= 'a' && r <= 'z', r >= 'A' && r <= 'Z', r >= '0' && r <= '9', r == '_', r == '.', r == '!', r == '$':
			b.WriteRune(r)
		case r == '*':
			b.WriteString("P")
		case r == '[' || r == ']':
			b.WriteString("_")
		case r == '/':
			b.WriteString(".")
		default:
			b.WriteString("_")
		}
	}
	return b.String()
}

func (c *FnCtx) declare(name, decl string) {
	if c.declSet[name] {
		return
	}
	c.declSet[name] = true
	c.decls = append(c.decls, decl)
}

func (c *FnCtx) declConst(name, sort string) string {
	c.declare(name, fmt.Sprintf("(declare-const %s %s)", name, sort))
	return name
}

// freshConst declares a fresh constant of the sort of type t and assumes its type invariant.
func (c *FnCtx) freshVal(prefix string, t types.Type, st *State) Val {
	name := c.fresh(prefix)
	c.declConst(name, c.sortOf(t))
	v := Val{T: name, Typ: t}
	if inv := c.typeInv(name, t, st); inv != "true" {
		c.facts = append(c.facts, inv)
	}
	return v
}

func (c *FnCtx) assume(st *State, f string) {
	if f == "true" {
		return
	}
	c.facts = append(c.facts, implies(st.pc, f))
}

func (c *FnCtx) nameBool(prefix, term string) string {
	if term == "true" || term == "false" || !strings.HasPrefix(term, "(") {
		return term
	}
	if c.noNaming > 0 {
		// under a binder (quantifier body, recursive spec function, lemma): a global
		// definition would mention the bound variable; keep the term itself
		return term
	}
	n := c.fresh(prefix)
	c.declConst(n, "Bool")
	c.facts = append(c.facts, eq(n, term))
	return n
}

// nameTerm introduces a definition for big terms.
func (c *FnCtx) nameTerm(prefix, term, sort string) string {
	if len(term) < 200 || c.noNaming > 0 {
		return term
	}
	n := c.fresh(prefix)
	c.declConst(n, sort)
	c.facts = append(c.facts, eq(n, term))
	return n
}

func (c *FnCtx) oblige(st *State, kind, label, goal, src string, try bool, n ast.Node) *Obligation {
	if st.dead() {
		return nil
	}
	if kind == "safe" && c.noSafety {
		return nil
	}
	name := c.Fn.Key
	if c.instLabel != "" {
		name += "[" + c.instLabel + "]"
	}
	name += "#" + kind + ":" + label + c.labelSuffix
	pos := ""
	if n != nil && n.Pos().IsValid() {
		p := c.E.Fset.Position(n.Pos())
		pos = fmt.Sprintf("%s:%d", shortPath(p.Filename), p.Line)
	}
	o := &Obligation{Name: name, Kind: kind, Fn: c.Fn.Key, NDecl: len(c.decls), NFact: len(c.facts), PC: st.pc, Goal: goal, Try: try, Src: src, ctx: c, Pos: pos}
	o.SkipLo, o.SkipHi = c.skipLo, c.skipHi
	if c.skipHi > c.skipLo {
		o.SkipExtra = c.skipExtra
	}
	c.Obls = append(c.Obls, o)
	return o
}

// safety obligation with an ordinal per kind
func (c *FnCtx) safe(st *State, what, goal string, n ast.Node) {
	if st.dead() || c.noSafety || goal == "true" {
		return
	}
	c.safeN[what]++
	lbl := fmt.Sprintf("%s#%d", what, c.safeN[what])
	if len(c.frames) > 1 {
		lbl += "@" + shortKey(c.frame().fn.Key)
	}
	c.oblige(st, "safe", lbl, goal, what, false, n)
	// after the check, execution continues only if it held
	c.assume(st, goal)
}

func shortKey(k string) string {
	if i := strings.LastIndex(k, "/"); i >= 0 {
		return k[i+1:]
	}
	return k
}

// ---------------------------------------------------------------------------
// sorts

const prelude = `(define-sort F64 () (_ FloatingPoint 11 53))
(define-sort F32 () (_ FloatingPoint 8 24))
(declare-datatypes ((Slice 0)) (((mk_Slice (sl_ptr Int) (sl_len Int) (sl_cap Int)))))
(declare-datatypes ((Iface 0)) (((mk_Iface (if_tab Int) (if_ptr Int)))))
(declare-datatypes ((Str 0)) (((mk_Str (str_ptr Int) (str_len Int)))))
(define-fun tdiv ((a Int) (b Int)) Int (ite (>= a 0) (div a b) (- (div (- a) b))))
(define-fun tmod ((a Int) (b Int)) Int (ite (>= a 0) (mod a b) (- (mod (- a) b))))
(define-fun wrapS8 ((x Int)) Int (- (mod (+ x 128) 256) 128))
(define-fun wrapS16 ((x Int)) Int (- (mod (+ x 32768) 65536) 32768))
(define-fun wrapS32 ((x Int)) Int (- (mod (+ x 2147483648) 4294967296) 2147483648))
(define-fun wrapS64 ((x Int)) Int (- (mod (+ x 9223372036854775808) 18446744073709551616) 9223372036854775808))
(define-fun wrapU8 ((x Int)) Int (mod x 256))
(define-fun wrapU16 ((x Int)) Int (mod x 65536))
(define-fun wrapU32 ((x Int)) Int (mod x 4294967296))
(define-fun wrapU64 ((x Int)) Int (mod x 18446744073709551616))
(define-fun absI ((x Int)) Int (ite (>= x 0) x (- x)))
(define-fun minI ((x Int) (y Int)) Int (ite (<= x y) x y))
(define-fun maxI ((x Int) (y Int)) Int (ite (>= x y) x y))
`

func intInfo(t types.Type) (bits int, signed bool, ok bool) {
	b, isB := t.Underlying().(*types.Basic)
	if !isB {
		return 0, false, false
	}
	switch b.Kind() {
	case types.Int, types.Int64:
		return 64, true, true
	case types.Int8:
		return 8, true, true
	case types.Int16:
		return 16, true, true
	case types.Int32:
		return 32, true, true
	case types.Uint, types.Uint64, types.Uintptr:
		return 64, false, true
	case types.Uint8:
		return 8, false, true
	case types.Uint16:
		return 16, false, true
	case types.Uint32:
		return 32, false, true
	case types.UntypedInt, types.UntypedRune:
		return 0, true, true
	}
	return 0, false, false
}

func isFloat(t types.Type) (bits int, ok bool) {
	b, isB := t.Underlying().(*types.Basic)
	if !isB {
		return 0, false
	}
	switch b.Kind() {
	case types.Float64, types.UntypedFloat:
		return 64, true
	case types.Float32:
		return 32, true
	}
	return 0, false
}

func pow2(n int) *big.Int { return new(big.Int).Lsh(big.NewInt(1), uint(n)) }

func intRange(bits int, signed bool) (lo, hi *big.Int) {
	if signed {
		lo = new(big.Int).Neg(pow2(bits - 1))
		hi = new(big.Int).Sub(pow2(bits-1), big.NewInt(1))
	} else {
		lo = big.NewInt(0)
		hi = new(big.Int).Sub(pow2(bits), big.NewInt(1))
	}
	return
}

func bigLit(b *big.Int) string { return intLit(b.String()) }

func (c *FnCtx) subst(t types.Type) types.Type {
	if t == nil {
		return t
	}
	t = types.Unalias(t)
	if tp, ok := t.(*types.TypeParam); ok {
		for i := len(c.frames) - 1; i >= 0; i-- {
			if s, ok := c.frames[i].tsubst[tp]; ok {
				return c.subst(s)
			}
		}
		return t
	}
	return t
}

func (c *FnCtx) typeKey(t types.Type) string {
	t = c.subst(t)
	return sanitize(types.TypeString(t, func(p *types.Package) string {
		return p.Name()
	}))
}

func (c *FnCtx) sortOf(t types.Type) string {
	t = c.subst(t)
	switch u := t.(type) {
	case *types.Named:
		if st, ok := u.Underlying().(*types.Struct); ok {
			return c.structSort(u, st)
		}
		return c.sortOf(u.Underlying())
	case *types.Basic:
		switch {
		case u.Info()&types.IsBoolean != 0:
			return "Bool"
		case u.Info()&types.IsInteger != 0:
			return "Int"
		case u.Kind() == types.Float32:
			return "F32"
		case u.Info()&types.IsFloat != 0:
			return "F64"
		case u.Info()&types.IsString != 0:
			return "Str"
		case u.Kind() == types.UnsafePointer:
			return "Int"
		case u.Kind() == types.UntypedNil:
			return "Int"
		}
	case *types.Pointer, *types.Map, *types.Chan, *types.Signature:
		return "Int"
	case *types.Slice:
		return "Slice"
	case *types.Interface:
		return "Iface"
	case *types.Struct:
		return c.structSort(nil, u)
	case *types.Array:
		return "(Array Int " + c.sortOf(u.Elem()) + ")"
	case *types.TypeParam:
		if os.Getenv("ELKVC_DEBUG") != "" {
			panic("uninstantiated type parameter " + u.String())
		}
		panic(unsupported{"uninstantiated type parameter " + u.String()})
	case *types.Tuple:
		panic(unsupported{"tuple sort"})
	}
	panic(unsupported{"no sort for type " + t.String()})
}

func (c *FnCtx) structName(n *types.Named, st *types.Struct) string {
	if n != nil {
		return "S_" + c.typeKey(n)
	}
	return "S_anon_" + sanitize(st.String())
}

func (c *FnCtx) structSort(n *types.Named, st *types.Struct) string {
	name := c.structName(n, st)
	if c.declSet[name] {
		return name
	}
	// opaque external structs (e.g. big.Int, sync.Mutex): a single ghost Int field
	if n != nil && n.Obj().Pkg() != nil && !strings.HasPrefix(n.Obj().Pkg().Path(), RepoModule) {
		c.declare(name, fmt.Sprintf("(declare-datatypes ((%s 0)) (((mk_%s (%s_ghost Int)))))", name, name, name))
		return name
	}
	var fs []string
	for i := 0; i < st.NumFields(); i++ {
		f := st.Field(i)
		fs = append(fs, fmt.Sprintf("(%s_%s %s)", name, f.Name(), c.sortOf(f.Type())))
	}
	if len(fs) == 0 {
		fs = append(fs, fmt.Sprintf("(%s_unit Int)", name))
	}
	c.declare(name, fmt.Sprintf("(declare-datatypes ((%s 0)) (((mk_%s %s))))", name, name, strings.Join(fs, " ")))
	return name
}

func isOpaqueStruct(t types.Type) bool {
	n, ok := types.Unalias(t).(*types.Named)
	if !ok {
		return false
	}
	if _, ok := n.Underlying().(*types.Struct); !ok {
		return false
	}
	return n.Obj().Pkg() != nil && !strings.HasPrefix(n.Obj().Pkg().Path(), RepoModule)
}

func (c *FnCtx) structOf(t types.Type) (*types.Named, *types.Struct, bool) {
	t = c.subst(t)
	n, _ := t.(*types.Named)
	st, ok := t.Underlying().(*types.Struct)
	return n, st, ok
}

func (c *FnCtx) fieldAcc(t types.Type, field string) string {
	n, st, _ := c.structOf(t)
	c.sortOf(t)
	return c.structName(n, st) + "_" + field
}

// typeInv gives the range/shape facts every value of type t satisfies.
func (c *FnCtx) typeInv(term string, t types.Type, st *State) string {
	t = c.subst(t)
	if bits, signed, ok := intInfo(t); ok {
		if bits == 0 {
			return "true"
		}
		lo, hi := intRange(bits, signed)
		return and(app("<=", bigLit(lo), term), app("<=", term, bigLit(hi)))
	}
	switch u := t.Underlying().(type) {
	case *types.Basic:
		if u.Info()&types.IsString != 0 {
			return and(app("<=", "0", app("str_len", term)), app("<=", app("str_len", term), "72057594037927936"), app("<=", "0", app("str_ptr", term)))
		}
		if u.Kind() == types.UnsafePointer {
			return app("<=", "0", term)
		}
	case *types.Pointer, *types.Map, *types.Chan, *types.Signature:
		return app("<=", "0", term)
	case *types.Slice:
		// len and cap are Go ints; an allocation of 2^56 elements does not exist on amd64 (48-bit address space)
		return and(app("<=", "0", app("sl_len", term)), app("<=", app("sl_len", term), app("sl_cap", term)),
			app("<=", app("sl_cap", term), "72057594037927936"),
			app("<=", "0", app("sl_ptr", term)), app("=>", app("=", app("sl_ptr", term), "0"), app("=", app("sl_cap", term), "0")))
	case *types.Interface:
		return and(app("<=", "0", app("if_tab", term)), app("<=", "0", app("if_ptr", term)))
	case *types.Struct:
		if isOpaqueStruct(t) {
			return "true"
		}
		var parts []string
		for i := 0; i < u.NumFields(); i++ {
			f := u.Field(i)
			parts = append(parts, c.typeInv(app(c.fieldAcc(t, f.Name()), term), f.Type(), st))
		}
		return and(parts...)
	}
	return "true"
}

func (c *FnCtx) zero(t types.Type) Val {
	t = c.subst(t)
	if _, _, ok := intInfo(t); ok {
		return Val{T: "0", Typ: t}
	}
	if b, ok := isFloat(t); ok {
		if b == 32 {
			return Val{T: "(_ +zero 8 24)", Typ: t}
		}
		return Val{T: "(_ +zero 11 53)", Typ: t}
	}
	switch u := t.Underlying().(type) {
	case *types.Basic:
		if u.Info()&types.IsBoolean != 0 {
			return Val{T: "false", Typ: t}
		}
		if u.Info()&types.IsString != 0 {
			return Val{T: "(mk_Str 0 0)", Typ: t}
		}
		return Val{T: "0", Typ: t}
	case *types.Pointer, *types.Map, *types.Chan, *types.Signature:
		return Val{T: "0", Typ: t}
	case *types.Slice:
		return Val{T: "(mk_Slice 0 0 0)", Typ: t}
	case *types.Interface:
		return Val{T: "(mk_Iface 0 0)", Typ: t}
	case *types.Struct:
		n, st, _ := c.structOf(t)
		name := c.sortOf(t)
		if isOpaqueStruct(t) {
			return Val{T: app("mk_"+name, "0"), Typ: t}
		}
		var fs []string
		for i := 0; i < st.NumFields(); i++ {
			fs = append(fs, c.zero(st.Field(i).Type()).T)
		}
		if len(fs) == 0 {
			fs = append(fs, "0")
		}
		_ = n
		return Val{T: app("mk_"+name, fs...), Typ: t}
	case *types.Array:
		return Val{T: fmt.Sprintf("((as const %s) %s)", c.sortOf(t), c.zero(u.Elem()).T), Typ: t}
	}
	panic(unsupported{"no zero value for " + t.String()})
}

// ---------------------------------------------------------------------------
// heap

func (c *FnCtx) heapGet(st *State, key, sort string, typ types.Type) string {
	if t, ok := st.heap[key]; ok {
		return t
	}
	if c.heapSort[key] == "" {
		c.heapSort[key] = sort
		c.heapType[key] = typ
	}
	if st.hparam != nil {
		// body of a recursive spec function / lemma: the cell becomes a parameter (bound variable)
		info := st.hparam
		found := false
		for _, k := range info.keys {
			if k == key {
				found = true
			}
		}
		if !found {
			info.keys = append(info.keys, key)
			info.sorts = append(info.sorts, sort)
		}
		return info.prefix + sanitize(key)
	}
	name := fmt.Sprintf("%s!e%d", sanitize(key), st.epoch)
	c.declConst(name, sort)
	return name
}

func (c *FnCtx) heapSet(st *State, key, term string) {
	st.heap[key] = term
}

func (c *FnCtx) fieldKey(structT types.Type, field string) string {
	return "H_" + c.typeKey(structT) + "_" + field
}

func (c *FnCtx) memKey(elem types.Type) string {
	// named non-struct types share the memory of their underlying type, so that pointer
	// conversions such as (*[]Value)(l) with l *ArrayListOfValue alias as they do in Go
	elem = c.subst(elem)
	for {
		n, ok := elem.(*types.Named)
		if !ok {
			break
		}
		if _, isStruct := n.Underlying().(*types.Struct); isStruct {
			break
		}
		elem = n.Underlying()
	}
	switch u := elem.(type) {
	case *types.Slice:
		return "M_slice"
	case *types.Pointer, *types.Map, *types.Chan, *types.Signature:
		return "M_ptr"
	case *types.Basic:
		if u.Info()&types.IsInteger != 0 {
			bits, signed, _ := intInfo(u)
			return fmt.Sprintf("M_int%d_%v", bits, signed)
		}
	}
	return "M_" + c.typeKey(elem)
}

func (c *FnCtx) readField(st *State, ptr string, structT types.Type, f *types.Var) Val {
	if c.E.addrTaken[f.Origin()] {
		// a field whose address is taken somewhere (&u.closed) lives in the flat memory of its
		// type at its interior address, so that *(&p.f) and p.f are the same cell
		// (a struct-typed field is read the way a dereference of a pointer to it reads it:
		// field by field for ordinary structs)
		return c.loadFrom(&Env{st: st}, c.interiorAddr(ptr, structT, f), f.Type())
	}
	key := c.fieldKey(structT, f.Name())
	arr := c.heapGet(st, key, "(Array Int "+c.sortOf(f.Type())+")", f.Type())
	t := app("select", arr, ptr)
	c.assumeInv(st, t, f.Type())
	return Val{T: t, Typ: f.Type()}
}

func (c *FnCtx) assumeInv(st *State, term string, t types.Type) {
	inv := c.typeInv(term, t, st)
	if inv != "true" {
		// invariants of stored values hold unconditionally (well-typed memory)
		c.facts = append(c.facts, inv)
	}
	// whatever a memory cell points to was allocated before the read
	if st != nil && st.alloc != "" && st.alloc != "0" {
		switch u := c.subst(t).Underlying().(type) {
		case *types.Basic:
			if u.Kind() == types.UnsafePointer {
				c.facts = append(c.facts, implies(st.pc, app("<", term, st.alloc)))
			}
		case *types.Struct:
			if !isOpaqueStruct(c.subst(t)) {
				for i := 0; i < u.NumFields(); i++ {
					f := u.Field(i)
					switch fu := c.subst(f.Type()).Underlying().(type) {
					case *types.Pointer, *types.Map, *types.Chan:
						c.facts = append(c.facts, implies(st.pc, app("<", app(c.fieldAcc(t, f.Name()), term), st.alloc)))
					case *types.Basic:
						if fu.Kind() == types.UnsafePointer {
							c.facts = append(c.facts, implies(st.pc, app("<", app(c.fieldAcc(t, f.Name()), term), st.alloc)))
						}
					}
				}
			}
		case *types.Pointer, *types.Map, *types.Chan:
			c.facts = append(c.facts, implies(st.pc, app("<", term, st.alloc)))
		case *types.Slice:
			c.facts = append(c.facts, implies(st.pc, app("<=", app("+", app("sl_ptr", term), app("*", fmt.Sprint(c.sizeof(u.Elem())), app("sl_cap", term))), st.alloc)))
		}
	}
}

func (c *FnCtx) writeField(st *State, ptr string, structT types.Type, f *types.Var, v string) {
	if c.E.addrTaken[f.Origin()] {
		c.storeTo(&Env{st: st}, c.interiorAddr(ptr, structT, f), f.Type(), v)
		return
	}
	key := c.fieldKey(structT, f.Name())
	arr := c.heapGet(st, key, "(Array Int "+c.sortOf(f.Type())+")", f.Type())
	c.heapSet(st, key, c.nameTerm("h", app("store", arr, ptr, v), "(Array Int "+c.sortOf(f.Type())+")"))
}

func (c *FnCtx) readMem(st *State, addr string, elem types.Type) Val {
	key := c.memKey(elem)
	arr := c.heapGet(st, key, "(Array Int "+c.sortOf(elem)+")", elem)
	t := app("select", arr, addr)
	c.assumeInv(st, t, elem)
	return Val{T: t, Typ: elem}
}

func (c *FnCtx) writeMem(st *State, addr string, elem types.Type, v string) {
	key := c.memKey(elem)
	arr := c.heapGet(st, key, "(Array Int "+c.sortOf(elem)+")", elem)
	c.heapSet(st, key, c.nameTerm("m", app("store", arr, addr, v), "(Array Int "+c.sortOf(elem)+")"))
}

func (c *FnCtx) sizeof(t types.Type) int64 {
	t = c.subst(t)
	s := c.E.Sizes.Sizeof(t)
	if s <= 0 {
		s = 1
	}
	return s
}

func (c *FnCtx) elemAddr(ptr, idx string, elem types.Type) string {
	sz := c.sizeof(elem)
	if idx == "0" {
		return ptr
	}
	if _, isLit := parseIntLit(idx); isLit || os.Getenv("ELKVC_NO_EADDR") != "" {
		if sz == 1 {
			return app("+", ptr, idx)
		}
		return app("+", ptr, app("*", fmt.Sprint(sz), idx))
	}
	// symbolic index: address through a declared function so that quantified facts about
	// slice elements have a usable trigger (arithmetic terms make poor E-matching patterns)
	fn := fmt.Sprintf("eaddr%d", sz)
	if !c.declSet[fn] {
		c.declSet[fn] = true
		c.decls = append(c.decls, fmt.Sprintf("(declare-fun %s (Int Int) Int)", fn),
			fmt.Sprintf("(assert (forall ((p Int) (i Int)) (! (= (%s p i) (+ p (* %d i))) :pattern ((%s p i)))))", fn, sz, fn))
	}
	return app(fn, ptr, idx)
}

// alloc returns a fresh address range of n bytes (n an SMT term).
func (c *FnCtx) allocate(st *State, nbytes string) string {
	a := c.allocateRaw(st, nbytes)
	if c.objTy {
		c.facts = append(c.facts, eq(app("objty", a), "0"))
	}
	return a
}

// allocateObj: a fresh struct object of type t (its base address carries the type tag).
func (c *FnCtx) allocateObj(st *State, t types.Type) string {
	a := c.allocateRaw(st, fmt.Sprint(c.sizeof(t)))
	c.markObj(a, t)
	return a
}

func (c *FnCtx) allocateRaw(st *State, nbytes string) string {
	a := c.fresh("addr")
	c.declConst(a, "Int")
	c.facts = append(c.facts, and(app(">", a, "0"), app(">=", a, st.alloc)))
	na := c.fresh("alloc")
	c.declConst(na, "Int")
	c.facts = append(c.facts, eq(na, app("+", a, nbytes, "1")), app("<", na, "281474976710656"))
	oldAlloc := st.alloc
	st.alloc = na
	// only the base address of an object carries a type; nothing else between the old and the
	// new allocation frontier does (padding before the block included)
	if !c.objTy {
		return a
	}
	c.useObjTy()
	if oldAlloc == "0" {
		// objects created while evaluating package-level initialisers: their place relative to
		// the function's own heap is unknown
		return a
	}
	c.facts = append(c.facts, fmt.Sprintf("(forall ((k Int)) (! (=> (and (<= %s k) (< k %s) (not (= k %s))) (= (objty k) 0)) :pattern ((objty k))))", oldAlloc, na, a))
	return a
}

// objty: the static map from base addresses of allocated struct objects to their type tag (0
// for every other address of an allocated block, and for the base of a block that is not a
// struct object unless markObj says otherwise).
func (c *FnCtx) useObjTy() {
	if !c.declSet["objty"] {
		c.declSet["objty"] = true
		c.decls = append(c.decls, "(declare-fun objty (Int) Int)")
	}
}

// markObj records the type of the object just allocated at a.
func (c *FnCtx) markObj(a string, t types.Type) {
	if !c.objTy {
		return
	}
	c.useObjTy()
	c.facts = append(c.facts, eq(app("objty", a), c.typeTag(t)))
}

func (c *FnCtx) typeTag(t types.Type) string {
	t = c.subst(t)
	k := types.TypeString(t, nil)
	if id, ok := c.typeTags[k]; ok {
		return fmt.Sprint(id)
	}
	id := len(c.typeTags) + 1
	c.typeTags[k] = id
	c.tagTypes = append(c.tagTypes, t)
	return fmt.Sprint(id)
}

// ---------------------------------------------------------------------------
// state joins

func (c *FnCtx) join(states ...*State) *State {
	var live []*State
	for _, s := range states {
		if s != nil && !s.dead() {
			live = append(live, s)
		}
	}
	if len(live) == 0 {
		s := states[0].clone()
		s.pc = "false"
		return s
	}
	if len(live) == 1 {
		return live[0]
	}
	res := live[0].clone()
	var pcs []string
	for _, s := range live {
		pcs = append(pcs, s.pc)
	}
	res.pc = c.nameBool("pc", or(pcs...))
	// variables
	keys := map[types.Object]bool{}
	for _, s := range live {
		for k := range s.vars {
			keys[k] = true
		}
	}
	var objs []types.Object
	for k := range keys {
		objs = append(objs, k)
	}
	sort.Slice(objs, func(i, j int) bool {
		if objs[i].Pos() != objs[j].Pos() {
			return objs[i].Pos() < objs[j].Pos()
		}
		return objs[i].Name() < objs[j].Name()
	})
	for _, k := range objs {
		var v0 Val
		okAll := true
		for _, s := range live {
			if _, ok := s.vars[k]; !ok {
				okAll = false
			}
		}
		if !okAll {
			delete(res.vars, k) // not defined on all paths: out of scope after the join
			continue
		}
		v0 = live[len(live)-1].vars[k]
		term := v0.T
		for i := len(live) - 2; i >= 0; i-- {
			term = ite(live[i].pc, live[i].vars[k].T, term)
		}
		if term != v0.T || true {
			sortS := c.sortOf(v0.Typ)
			term = c.nameTerm("j_"+k.Name(), term, sortS)
		}
		res.vars[k] = Val{T: term, Typ: v0.Typ}
	}
	// heap: epochs may differ
	maxEpoch := live[0].epoch
	same := true
	for _, s := range live {
		if s.epoch != live[0].epoch {
			same = false
		}
		if s.epoch > maxEpoch {
			maxEpoch = s.epoch
		}
	}
	hkeys := map[string]bool{}
	for _, s := range live {
		for k := range s.heap {
			hkeys[k] = true
		}
	}
	if !same {
		// materialise lazily-defined entries per state before merging
		for k := range c.heapSort {
			hkeys[k] = true
		}
		c.nfresh++
		res.epoch = 1000 + c.nfresh
	}
	var hk []string
	for k := range hkeys {
		hk = append(hk, k)
	}
	sort.Strings(hk)
	for _, k := range hk {
		srt := c.heapSort[k]
		last := c.heapGet(live[len(live)-1], k, srt, c.heapType[k])
		term := last
		for i := len(live) - 2; i >= 0; i-- {
			term = ite(live[i].pc, c.heapGet(live[i], k, srt, c.heapType[k]), term)
		}
		res.heap[k] = c.nameTerm("jh", term, srt)
	}
	// alloc
	at := live[len(live)-1].alloc
	for i := len(live) - 2; i >= 0; i-- {
		at = ite(live[i].pc, live[i].alloc, at)
	}
	res.alloc = c.nameTerm("alloc", at, "Int")
	return res
}

// split returns the two branches of st on cond.
func (c *FnCtx) split(st *State, cond string) (*State, *State) {
	a := st.clone()
	b := st.clone()
	a.pc = c.nameBool("pc", and(st.pc, cond))
	b.pc = c.nameBool("pc", and(st.pc, not(cond)))
	return a, b
}

// replace copies src into dst (in place).
func (dst *State) become(src *State) {
	dst.pc, dst.vars, dst.heap, dst.epoch, dst.alloc = src.pc, src.vars, src.heap, src.epoch, src.alloc
}

// havocAll forgets the whole heap.
func (c *FnCtx) havocAll(st *State) {
	c.nfresh++
	st.epoch = c.nfresh
	st.heap = map[string]string{}
	na := c.fresh("alloc")
	c.declConst(na, "Int")
	c.facts = append(c.facts, app(">=", na, st.alloc), app("<", na, "281474976710656"))
	st.alloc = na
}

func (c *FnCtx) havocKey(st *State, key string, typ types.Type) {
	if key == "*" {
		c.havocAll(st)
		return
	}
	srt, ok := c.heapSort[key]
	if !ok {
		if typ == nil {
			c.havocAll(st)
			return
		}
		if strings.HasPrefix(key, "G_") {
			srt = c.sortOf(typ)
		} else {
			srt = "(Array Int " + c.sortOf(typ) + ")"
		}
		c.heapSort[key] = srt
		c.heapType[key] = typ
	}
	n := c.fresh(key)
	c.declConst(n, srt)
	st.heap[key] = n
}

// fpBits lazily declares the float<->bits bijection used by unsafe reinterpretation.
func (c *FnCtx) fpBits(bits int) (toBits, fromBits string) {
	if bits == 32 {
		if !c.declSet["f32bits"] {
			c.declSet["f32bits"] = true
			c.decls = append(c.decls, "(declare-fun f32bits (F32) Int)", "(declare-fun f32frombits (Int) F32)",
				"(assert (forall ((f F32)) (! (and (= (f32frombits (f32bits f)) f) (<= 0 (f32bits f)) (< (f32bits f) 4294967296)) :pattern ((f32bits f)))))")
		}
		return "f32bits", "f32frombits"
	}
	if !c.declSet["f64bits"] {
		c.declSet["f64bits"] = true
		c.decls = append(c.decls, "(declare-fun f64bits (F64) Int)", "(declare-fun f64frombits (Int) F64)",
			"(assert (forall ((f F64)) (! (and (= (f64frombits (f64bits f)) f) (<= 0 (f64bits f)) (< (f64bits f) 18446744073709551616)) :pattern ((f64bits f)))))")
	}
	return "f64bits", "f64frombits"
}
