package vc

import (
	"fmt"
	"go/ast"
	"go/token"
	"go/types"
	"sort"
	"strings"

	"golang.org/x/tools/go/packages"
)

// Frame inference through calls of function VALUES.
//
// A call `f(...)` where f is a parameter, a field or a local of function type used to make
// the inferred frame "anything".  Every function value in a Go program originates from a
// function literal, from a named function or method used as a value (`p.additiveExpression`,
// `ast.NewBinaryExpressionNodeI`), or from code outside the repository.  The set of the first
// two kinds is finite and can be read off the source of the repository: a dynamic call with
// static signature S may run any of them whose signature can be S (type parameters on either
// side match anything), and the frame of the call is the union of their frames.  Functions
// from outside the repository are treated as every other external call is (they do not write
// tracked state).  A function literal that assigns to a variable declared outside of it writes
// the memory of that variable's type when the variable lives in memory; the effect on a local
// of its creator that does not (the engine's function literals are opaque values) is a known
// gap of the engine, independent of this inference.

type funcValue struct {
	sig *types.Signature
	fn  *types.Func  // named function or method used as a value
	lit *ast.FuncLit // or a function literal
	pkg *packages.Package
	cha bool // method value through an interface: all implementations by name
}

func (e *Engine) funcValues() []*funcValue {
	if e.fvalsDone {
		return e.fvals
	}
	e.fvalsDone = true
	var paths []string
	for pp := range e.All {
		if strings.HasPrefix(pp, RepoModule) {
			paths = append(paths, pp)
		}
	}
	sort.Strings(paths)
	for _, pp := range paths {
		pkg := e.All[pp]
		info := pkg.TypesInfo
		if info == nil {
			continue
		}
		for _, f := range pkg.Syntax {
			called := map[*ast.Ident]bool{}
			selSel := map[*ast.Ident]bool{}
			ast.Inspect(f, func(n ast.Node) bool {
				if call, ok := n.(*ast.CallExpr); ok {
					fun := unparenExpr(call.Fun)
					switch x := fun.(type) {
					case *ast.IndexExpr:
						fun = unparenExpr(x.X)
					case *ast.IndexListExpr:
						fun = unparenExpr(x.X)
					}
					switch x := fun.(type) {
					case *ast.Ident:
						called[x] = true
					case *ast.SelectorExpr:
						called[x.Sel] = true
					}
				}
				return true
			})
			ast.Inspect(f, func(n ast.Node) bool {
				switch x := n.(type) {
				case *ast.FuncLit:
					if sig, ok := info.TypeOf(x).(*types.Signature); ok {
						e.fvals = append(e.fvals, &funcValue{sig: sig, lit: x, pkg: pkg})
					}
				case *ast.SelectorExpr:
					selSel[x.Sel] = true
					if called[x.Sel] {
						return true
					}
					fn, ok := info.Uses[x.Sel].(*types.Func)
					if !ok {
						return true
					}
					sig, ok := info.TypeOf(x).(*types.Signature)
					if !ok {
						return true
					}
					fv := &funcValue{sig: sig, fn: fn, pkg: pkg}
					if s, ok := info.Selections[x]; ok && s.Recv() != nil {
						if _, isI := s.Recv().Underlying().(*types.Interface); isI {
							fv.cha = true
						}
					}
					e.fvals = append(e.fvals, fv)
				case *ast.Ident:
					if called[x] || selSel[x] {
						return true
					}
					fn, ok := info.Uses[x].(*types.Func)
					if !ok {
						return true
					}
					if sig, ok := info.TypeOf(x).(*types.Signature); ok {
						e.fvals = append(e.fvals, &funcValue{sig: sig, fn: fn, pkg: pkg})
					}
				}
				return true
			})
		}
	}
	return e.fvals
}

func hasTypeParam(t types.Type) bool {
	found := false
	var walk func(t types.Type, depth int)
	walk = func(t types.Type, depth int) {
		if found || depth > 6 || t == nil {
			return
		}
		switch u := types.Unalias(t).(type) {
		case *types.TypeParam:
			found = true
		case *types.Pointer:
			walk(u.Elem(), depth+1)
		case *types.Slice:
			walk(u.Elem(), depth+1)
		case *types.Array:
			walk(u.Elem(), depth+1)
		case *types.Map:
			walk(u.Key(), depth+1)
			walk(u.Elem(), depth+1)
		case *types.Chan:
			walk(u.Elem(), depth+1)
		case *types.Named:
			if ta := u.TypeArgs(); ta != nil {
				for i := 0; i < ta.Len(); i++ {
					walk(ta.At(i), depth+1)
				}
			}
		case *types.Signature:
			for i := 0; i < u.Params().Len(); i++ {
				walk(u.Params().At(i).Type(), depth+1)
			}
			for i := 0; i < u.Results().Len(); i++ {
				walk(u.Results().At(i).Type(), depth+1)
			}
		}
	}
	walk(t, 0)
	return found
}

// sigMayBe: can a value of signature b be called through a variable of signature a?
func sigMayBe(a, b *types.Signature) bool {
	if a.Params().Len() != b.Params().Len() || a.Results().Len() != b.Results().Len() || a.Variadic() != b.Variadic() {
		return false
	}
	ok := func(x, y types.Type) bool {
		// a bare type parameter with a method-ful constraint only stands for types that
		// satisfy the constraint
		if tp, isTP := types.Unalias(x).(*types.TypeParam); isTP && !hasTypeParam(y) {
			if ci, isI := tp.Constraint().Underlying().(*types.Interface); isI && ci.NumMethods() > 0 && ci.IsMethodSet() {
				return types.Implements(y, ci)
			}
			return true
		}
		if hasTypeParam(x) || hasTypeParam(y) {
			return true
		}
		return types.Identical(x, y)
	}
	for i := 0; i < a.Params().Len(); i++ {
		if !ok(a.Params().At(i).Type(), b.Params().At(i).Type()) {
			return false
		}
	}
	for i := 0; i < a.Results().Len(); i++ {
		if !ok(a.Results().At(i).Type(), b.Results().At(i).Type()) {
			return false
		}
	}
	return true
}

// litOuterWrites: the types of the variables declared outside the literal that it assigns to
// (or takes the address of).
func litOuterWrites(info *types.Info, lit *ast.FuncLit) []types.Type {
	var ts []types.Type
	found := false
	outer := func(x ast.Expr) bool {
		id, ok := unparenExpr(x).(*ast.Ident)
		if !ok {
			return false
		}
		v, ok := info.ObjectOf(id).(*types.Var)
		if !ok || v.IsField() {
			return false
		}
		if v.Pkg() != nil && v.Parent() == v.Pkg().Scope() {
			return false // package-level: handled as a global by modWalk
		}
		if v.Pos() < lit.Pos() || v.Pos() > lit.End() {
			ts = append(ts, v.Type())
		}
		return false
	}
	ast.Inspect(lit.Body, func(n ast.Node) bool {
		switch s := n.(type) {
		case *ast.AssignStmt:
			if s.Tok == token.DEFINE {
				return true
			}
			for _, l := range s.Lhs {
				if outer(l) {
					found = true
				}
			}
		case *ast.IncDecStmt:
			if outer(s.X) {
				found = true
			}
		case *ast.UnaryExpr:
			if s.Op == token.AND && outer(s.X) {
				found = true
			}
		case *ast.RangeStmt:
			if s.Tok == token.ASSIGN && (s.Key != nil && outer(s.Key) || s.Value != nil && outer(s.Value)) {
				found = true
			}
		}
		return !found
	})
	return ts
}

// modDynamic adds the frames of every function value a call through signature sig may run.
// It reports false when it cannot bound them.
func (e *Engine) modDynamic(c *FnCtx, sig *types.Signature, out map[string]types.Type, seen map[*types.Func]bool) bool {
	if e.dynBusy == nil {
		e.dynBusy = map[*ast.FuncLit]bool{}
	}
	if len(e.dynBusy) == 0 {
		// outermost dynamic call of this walk: bound by signature once per walk
		e.dynSigSeen = map[string]bool{}
	}
	sk := fmt.Sprintf("%p", sig) // the type of one variable: the same candidates every time
	if e.dynSigSeen[sk] {
		return true
	}
	e.dynSigSeen[sk] = true
	for _, fv := range e.funcValues() {
		if !sigMayBe(sig, fv.sig) {
			continue
		}
		switch {
		case fv.lit != nil:
			if e.dynBusy[fv.lit] {
				continue
			}
			// assignments to variables declared outside the literal: when such a variable lives in
			// memory (its address is taken) the write is to the flat memory of its type
			for _, t := range litOuterWrites(fv.pkg.TypesInfo, fv.lit) {
				e.addElemKeys(c, t, out)
			}
			e.dynBusy[fv.lit] = true
			func() {
				defer func() {
					if r := recover(); r != nil {
						out["*"] = nil
					}
				}()
				e.modWalk(c, fv.pkg.TypesInfo, fv.lit.Body, out, seen)
			}()
			delete(e.dynBusy, fv.lit)
		case fv.cha:
			for k, v := range e.modOfMethodNameSeen(c, fv.fn, seen) {
				out[k] = v
			}
		default:
			if fi := e.ByObj[fv.fn.Origin()]; fi != nil {
				e.modFunc(c, fi, out, seen)
			}
			// a function from outside the repository: as for every external call
		}
		if _, all := out["*"]; all {
			return true
		}
	}
	return true
}

// instancesOf: the type-argument lists with which the repository instantiates a generic function
// (explicitly or by inference), read off the type checker's record of every package.
func (e *Engine) instancesOf(fn *types.Func) [][]types.Type {
	if e.instIdx == nil {
		e.instIdx = map[*types.Func][][]types.Type{}
		seen := map[string]bool{}
		for pp, pkg := range e.All {
			if !strings.HasPrefix(pp, RepoModule) || pkg.TypesInfo == nil {
				continue
			}
			for id, inst := range pkg.TypesInfo.Instances {
				f, ok := pkg.TypesInfo.Uses[id].(*types.Func)
				if !ok || inst.TypeArgs == nil {
					continue
				}
				f = f.Origin()
				var ts []types.Type
				key := f.FullName() + "["
				for i := 0; i < inst.TypeArgs.Len(); i++ {
					ts = append(ts, inst.TypeArgs.At(i))
					key += types.TypeString(inst.TypeArgs.At(i), nil) + ","
				}
				if seen[key] {
					continue
				}
				seen[key] = true
				e.instIdx[f] = append(e.instIdx[f], ts)
			}
		}
	}
	return e.instIdx[fn.Origin()]
}
