package vc

import (
	"go/ast"
	"go/types"
	"sort"
	"strings"
)

// guardedCoverage: for every field declared `guarded T.f by m for PROP`, each function of
// the declaring package whose body mentions the field must be under a contract claimed for
// PROP (so its accesses are checked against the lock discipline) or be marked `unshared`.
// A new accessor without a contract therefore fails the obligation `<func>#guarded-coverage:<field>`.
func (e *Engine) guardedCoverage(prop string) []*FuncReport {
	var reps []*FuncReport
	var keys []string
	for k := range e.GuardedProps {
		keys = append(keys, k)
	}
	sort.Strings(keys)
	for _, gk := range keys {
		has := false
		for _, p := range e.GuardedProps[gk] {
			if p == prop {
				has = true
			}
		}
		if !has {
			continue
		}
		i := strings.LastIndex(gk, ".")
		j := strings.LastIndex(gk[:i], ".")
		pkgPath, typeName, fieldName := gk[:j], gk[j+1:i], gk[i+1:]
		pkg := e.All[pkgPath]
		if pkg == nil {
			continue
		}
		for _, f := range pkg.Syntax {
			for _, d := range f.Decls {
				fd, ok := d.(*ast.FuncDecl)
				if !ok || fd.Body == nil {
					continue
				}
				mentions := false
				ast.Inspect(fd.Body, func(n ast.Node) bool {
					sel, ok := n.(*ast.SelectorExpr)
					if !ok {
						return true
					}
					if s, ok := pkg.TypesInfo.Selections[sel]; ok && s.Kind() == types.FieldVal && s.Obj().Name() == fieldName {
						rt := s.Recv()
						if p, ok := rt.Underlying().(*types.Pointer); ok {
							rt = p.Elem()
						}
						if nm, ok := types.Unalias(rt).(*types.Named); ok && nm.Obj().Name() == typeName {
							mentions = true
						}
					}
					return true
				})
				if !mentions {
					continue
				}
				obj, _ := pkg.TypesInfo.Defs[fd.Name].(*types.Func)
				if obj == nil {
					continue
				}
				key := FuncKey(obj)
				ct := e.Contracts[key]
				covered := false
				if ct != nil {
					if ct.Unshared {
						covered = true
					}
					for _, p := range ct.Props {
						if p == prop {
							covered = true
						}
					}
				}
				fi := e.Funcs[key]
				c := e.newCtx(fi, ct)
				st := &State{pc: "true", vars: map[types.Object]Val{}, heap: map[string]string{}, alloc: "0"}
				goal := "false"
				if covered {
					goal = "true"
				}
				c.oblige(st, "guarded-coverage", typeName+"."+fieldName, goal, "every function that touches "+typeName+"."+fieldName+" is under a lock-discipline contract", false, fd)
				reps = append(reps, &FuncReport{Key: key, Obls: c.Obls, Ctx: c})
			}
		}
	}
	return reps
}
