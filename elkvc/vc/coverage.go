package vc

import (
	"go/ast"
	"go/token"
	"go/types"
	"sort"
	"strings"
)

// guardedCoverage: for every field declared `guarded T.f by m for PROP`, each function of
// the declaring package whose body mentions the field must be under a contract claimed for
// PROP (so its accesses are checked against the lock discipline) or be marked `unshared`.
// A new accessor without a contract therefore fails the obligation `<func>#guarded-coverage:<field>`.
func (e *Engine) guardedCoverage(prop string) []*FuncReport {
	var reps []*FuncReport
	var keys []string
	for k := range e.GuardedProps {
		keys = append(keys, k)
	}
	sort.Strings(keys)
	for _, gk := range keys {
		has := false
		for _, p := range e.GuardedProps[gk] {
			if p == prop {
				has = true
			}
		}
		if !has {
			continue
		}
		i := strings.LastIndex(gk, ".")
		j := strings.LastIndex(gk[:i], ".")
		pkgPath, typeName, fieldName := gk[:j], gk[j+1:i], gk[i+1:]
		pkg := e.All[pkgPath]
		if pkg == nil {
			continue
		}
		for _, f := range pkg.Syntax {
			for _, d := range f.Decls {
				fd, ok := d.(*ast.FuncDecl)
				if !ok || fd.Body == nil {
					continue
				}
				mentions := false
				ast.Inspect(fd.Body, func(n ast.Node) bool {
					sel, ok := n.(*ast.SelectorExpr)
					if !ok {
						return true
					}
					if s, ok := pkg.TypesInfo.Selections[sel]; ok && s.Kind() == types.FieldVal && s.Obj().Name() == fieldName {
						rt := s.Recv()
						if p, ok := rt.Underlying().(*types.Pointer); ok {
							rt = p.Elem()
						}
						if nm, ok := types.Unalias(rt).(*types.Named); ok && nm.Obj().Name() == typeName {
							mentions = true
						}
					}
					return true
				})
				if !mentions {
					continue
				}
				obj, _ := pkg.TypesInfo.Defs[fd.Name].(*types.Func)
				if obj == nil {
					continue
				}
				key := FuncKey(obj)
				ct := e.Contracts[key]
				covered := false
				if ct != nil {
					if ct.Unshared {
						covered = true
					}
					for _, p := range ct.Props {
						if p == prop {
							covered = true
						}
					}
				}
				fi := e.Funcs[key]
				c := e.newCtx(fi, ct)
				st := &State{pc: "true", vars: map[types.Object]Val{}, heap: map[string]string{}, alloc: "0"}
				goal := "false"
				if covered {
					goal = "true"
				}
				c.oblige(st, "guarded-coverage", typeName+"."+fieldName, goal, "every function that touches "+typeName+"."+fieldName+" is under a lock-discipline contract", false, fd)
				reps = append(reps, &FuncReport{Key: key, Obls: c.Obls, Ctx: c})
			}
		}
	}
	reps = append(reps, e.ownedCoverage(prop)...)
	reps = append(reps, e.callersCoverage(prop)...)
	return reps
}

// CallersSpec: `callers (*T).M only fn1, fn2 for PROP`: M is a variant of an operation that is
// only correct in a restricted setting (an unlocked push, legitimate on a slice no other
// goroutine can see); the clause lists the functions that may call it.  Checked on the syntax
// of the whole repository: one obligation per function (function literals count as part of the
// declaration they are written in) that contains a call resolving statically to M.
type CallersSpec struct {
	Key     string
	Allowed []string
	Props   []string
}

func (e *Engine) callersCoverage(prop string) []*FuncReport {
	var reps []*FuncReport
	for _, cs := range e.Callers {
		has := false
		for _, p := range cs.Props {
			if p == prop {
				has = true
			}
		}
		if !has {
			continue
		}
		var pkgPaths []string
		for pp := range e.All {
			if strings.HasPrefix(pp, RepoModule) {
				pkgPaths = append(pkgPaths, pp)
			}
		}
		sort.Strings(pkgPaths)
		for _, pp := range pkgPaths {
			pkg := e.All[pp]
			for _, f := range pkg.Syntax {
				for _, d := range f.Decls {
					fd, ok := d.(*ast.FuncDecl)
					if !ok || fd.Body == nil {
						continue
					}
					calls := false
					ast.Inspect(fd.Body, func(n ast.Node) bool {
						sel, ok := n.(*ast.SelectorExpr)
						if !ok {
							return true
						}
						if s, ok := pkg.TypesInfo.Selections[sel]; ok && (s.Kind() == types.MethodVal || s.Kind() == types.MethodExpr) {
							if m, ok := s.Obj().(*types.Func); ok && FuncKey(m) == cs.Key {
								calls = true // a call or a method value: either way the method gets out
							}
						}
						return true
					})
					if !calls {
						continue
					}
					obj, _ := pkg.TypesInfo.Defs[fd.Name].(*types.Func)
					if obj == nil {
						continue
					}
					key := FuncKey(obj)
					allowed := false
					for _, o := range cs.Allowed {
						if o == fd.Name.Name || o == shortKey(key) {
							allowed = true
						}
					}
					fi := e.Funcs[key]
					c := e.newCtx(fi, e.Contracts[key])
					st := &State{pc: "true", vars: map[types.Object]Val{}, heap: map[string]string{}, alloc: "0"}
					goal := "false"
					if allowed {
						goal = "true"
					}
					c.oblige(st, "restricted-call", shortKey(cs.Key), goal, "only "+strings.Join(cs.Allowed, ", ")+" may call "+shortKey(cs.Key), false, fd)
					reps = append(reps, &FuncReport{Key: key, Obls: c.Obls, Ctx: c})
				}
			}
		}
	}
	return reps
}

// OwnedSpec: `owned T.f, T.g by fn1, fn2 for PROP`: the listed fields of struct T may be
// assigned (=, op=, ++, --) only inside the listed functions of the package.  One obligation
// per function of the package that writes one of the fields: true iff the function is a
// listed owner.  This is a frame/ownership condition checked on the syntax of the current
// source: the contracts of the owners then describe every way the fields can change.
type OwnedSpec struct {
	PkgPath  string
	TypeName string
	Fields   []string
	Owners   []string
	Props    []string
}

func (e *Engine) ownedCoverage(prop string) []*FuncReport {
	var reps []*FuncReport
	for _, os := range e.Owned {
		has := false
		for _, p := range os.Props {
			if p == prop {
				has = true
			}
		}
		pkg := e.All[os.PkgPath]
		if !has || pkg == nil {
			continue
		}
		isOwned := func(sel *ast.SelectorExpr) (string, bool) {
			s, ok := pkg.TypesInfo.Selections[sel]
			if !ok || s.Kind() != types.FieldVal {
				return "", false
			}
			rt := s.Recv()
			if p, ok := rt.Underlying().(*types.Pointer); ok {
				rt = p.Elem()
			}
			nm, ok := types.Unalias(rt).(*types.Named)
			if !ok || nm.Obj().Name() != os.TypeName {
				return "", false
			}
			for _, f := range os.Fields {
				if f == s.Obj().Name() {
					return f, true
				}
			}
			return "", false
		}
		for _, f := range pkg.Syntax {
			for _, d := range f.Decls {
				fd, ok := d.(*ast.FuncDecl)
				if !ok || fd.Body == nil {
					continue
				}
				written := map[string]bool{}
				note := func(x ast.Expr) {
					if sel, ok := unparenExpr(x).(*ast.SelectorExpr); ok {
						if fld, ok := isOwned(sel); ok {
							written[fld] = true
						}
					}
				}
				ast.Inspect(fd.Body, func(n ast.Node) bool {
					switch s := n.(type) {
					case *ast.AssignStmt:
						for _, l := range s.Lhs {
							note(l)
						}
					case *ast.IncDecStmt:
						note(s.X)
					case *ast.UnaryExpr:
						if s.Op == token.AND {
							note(s.X) // taking the address allows a write elsewhere
						}
					}
					return true
				})
				if len(written) == 0 {
					continue
				}
				obj, _ := pkg.TypesInfo.Defs[fd.Name].(*types.Func)
				if obj == nil {
					continue
				}
				key := FuncKey(obj)
				owner := false
				for _, o := range os.Owners {
					if o == fd.Name.Name {
						owner = true
					}
				}
				var flds []string
				for k := range written {
					flds = append(flds, k)
				}
				sort.Strings(flds)
				fi := e.Funcs[key]
				c := e.newCtx(fi, e.Contracts[key])
				st := &State{pc: "true", vars: map[types.Object]Val{}, heap: map[string]string{}, alloc: "0"}
				goal := "false"
				if owner {
					goal = "true"
				}
				c.oblige(st, "owned-write", os.TypeName+"."+strings.Join(flds, "+"), goal, "only "+strings.Join(os.Owners, ", ")+" may assign "+os.TypeName+"."+strings.Join(os.Fields, "/"), false, fd)
				reps = append(reps, &FuncReport{Key: key, Obls: c.Obls, Ctx: c})
			}
		}
	}
	return reps
}
