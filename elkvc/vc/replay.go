package vc

// Replay turns a solver model into a run of the real function (see replay_gen.go).
func (e *Engine) Replay(o *Obligation) *ReplayResult {
	return e.replayObligation(o)
}
