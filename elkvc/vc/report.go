package vc

import (
	"encoding/json"
	"fmt"
	"os"
	"path/filepath"
	"strings"
)

// CheckMain runs one property check and returns the process exit code.
func CheckMain(e *Engine, prop, tier string, seed int, verbose bool) int {
	keys := e.ContractsFor(prop)
	if len(keys) == 0 {
		fmt.Printf("UNDECIDED property=%s no contracts claimed for this property\n", prop)
		return 2
	}
	res := e.RunCheck(prop, tier, seed, os.Stdout)
	extra := map[string]any{}
	if b := e.RunBounded(prop, tier, seed, res); b != nil {
		extra["bounded"] = b
	}
	nObl, nDis := 0, 0
	for _, r := range res.Reports {
		label := r.Key
		if r.Inst != "" {
			label += "[" + r.Inst + "]"
		}
		if r.OutOfSubset != "" {
			fmt.Printf("  out-of-subset %s: %s\n", shortKey(label), r.OutOfSubset)
			continue
		}
		fo, fd := 0, 0
		for _, o := range r.Obls {
			if o.MustFail || o.Try {
				continue
			}
			fo++
			if o.Status == "discharged" {
				fd++
			}
		}
		nObl += fo
		nDis += fd
		if verbose || fo != fd {
			fmt.Printf("  %s: %d/%d obligations discharged\n", shortKey(label), fd, fo)
		}
	}
	for _, k := range res.Known {
		fmt.Println(k)
	}
	for _, u := range res.Undecided {
		if verbose {
			fmt.Println("  undecided (not claimed):", u)
		}
	}
	code := 0
	// violations: replay the counterexample against the real code
	replayDir := filepath.Join(e.VerifDir, "replays")
	for _, o := range res.Violations {
		os.MkdirAll(replayDir, 0o755)
		file := filepath.Join(replayDir, fmt.Sprintf("%s-%s.json", prop, sanitize(strings.TrimPrefix(o.Name, RepoModule+"/"))))
		rp := e.Replay(o)
		rec := map[string]any{
			"property":      prop,
			"obligation":    o.Name,
			"clause":        o.Src,
			"position":      o.Pos,
			"solver":        o.Result.Solver,
			"solver_status": o.Result.Status,
			"solver_output": truncate(o.Result.Output, 20000),
			"model":         o.Result.Model,
			"replay":        rp,
		}
		b, _ := json.MarshalIndent(rec, "", " ")
		os.WriteFile(file, b, 0o644)
		suffix := ""
		if rp == nil || !rp.Confirmed {
			suffix = " no-failing-input-found"
		}
		fmt.Printf("  FAILED %s [%s] %s  (%s by %s)\n", o.Name, o.Pos, o.Src, o.Result.Status, o.Result.Solver)
		if rp != nil && rp.Summary != "" {
			fmt.Printf("    replay: %s\n", rp.Summary)
		}
		fmt.Printf("VIOLATION property=%s replay=%s%s\n", prop, file, suffix)
		code = 1
	}
	if b, ok := extra["bounded"].(*BoundedResult); ok && b != nil {
		for _, v := range b.Violations {
			fmt.Printf("VIOLATION property=%s replay=%s\n", prop, v)
			code = 1
		}
		for _, k := range b.Known {
			fmt.Println(k)
		}
	}
	if code == 0 {
		if len(res.Missing) > 0 {
			for _, m := range res.Missing {
				fmt.Printf("UNDECIDED property=%s missing=%s\n", prop, m)
			}
			code = 2
		}
		if len(res.OutOfSub) > 0 {
			// a function under a claimed contract left the verified subset: nothing can be said
			// about it — neither "held" (exit 0 would be a lie) nor "violated"
			for _, m := range res.OutOfSub {
				fmt.Printf("UNDECIDED property=%s out-of-subset=%s\n", prop, m)
			}
			code = 2
		}
		if len(res.Vacuous) > 0 {
			for _, m := range res.Vacuous {
				fmt.Printf("UNDECIDED property=%s vacuous=%s\n", prop, m)
			}
			code = 2
		}
		if nObl == 0 {
			fmt.Printf("UNDECIDED property=%s zero obligations generated\n", prop)
			code = 2
		}
	}
	cmd := fmt.Sprintf("/verif/bin/check %s %s", prop, tier)
	if err := e.WriteEvidence(res, seed, cmd, extra); err != nil {
		fmt.Fprintln(os.Stderr, "evidence:", err)
	}
	fmt.Printf("%s %s: %d/%d obligations discharged, %d functions under contract, %d undecided (unclaimed), %d out of subset, %.1fs\n",
		prop, tier, nDis, nObl, len(res.Reports), len(res.Undecided), len(res.OutOfSub), res.WallS)
	return code
}

func truncate(s string, n int) string {
	if len(s) > n {
		return s[:n] + "…"
	}
	return s
}

// placeholders filled in by replay.go / bounded.go

type ReplayResult struct {
	Confirmed bool     `json:"confirmed"`
	Summary   string   `json:"summary"`
	TestSrc   string   `json:"test_source,omitempty"`
	Output    string   `json:"output,omitempty"`
	Inputs    []string `json:"inputs,omitempty"`
}

type BoundedResult struct {
	Domain     string   `json:"domain"`
	Cases      int      `json:"cases"`
	Failures   int      `json:"failures"`
	Violations []string `json:"-"`
	Known      []string `json:"known,omitempty"`
	Checks     []any    `json:"checks,omitempty"`
}
