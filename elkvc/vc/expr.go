package vc

import (
	"fmt"
	"go/ast"
	"go/constant"
	"go/token"
	"go/types"
	"math/big"
	"regexp"
	"sort"
	"strings"
)

// Env is the evaluation environment of one expression.
type Env struct {
	st     *State
	spec   bool
	old    *State
	bound  map[string]Val
	lookup func(name string) (Val, bool)
	spkg   *types.Package // package whose scope resolves global names in spec mode
}

func (env *Env) with(st *State) *Env {
	n := *env
	n.st = st
	return &n
}

var untypedInt = types.Typ[types.UntypedInt]
var untypedBool = types.Typ[types.UntypedBool]

// mathRealT marks specification values of SMT sort Real (go/types has no such type; the unused
// untyped complex kind stands in for it)
var mathRealT = types.Typ[types.UntypedComplex]

func boolVal(t string) Val { return Val{T: t, Typ: types.Typ[types.Bool]} }
func mathInt(t string) Val { return Val{T: t, Typ: untypedInt} }

func (c *FnCtx) constVal(v constant.Value, t types.Type) Val {
	t = c.subst(t)
	switch v.Kind() {
	case constant.Bool:
		if constant.BoolVal(v) {
			return Val{T: "true", Typ: t}
		}
		return Val{T: "false", Typ: t}
	case constant.Int:
		if _, isF := isFloat(t); isF {
			return c.floatConst(v, t)
		}
		return Val{T: intLit(v.ExactString()), Typ: t}
	case constant.Float:
		if _, _, isI := intInfo(t); isI {
			iv := constant.ToInt(v)
			if iv.Kind() == constant.Int {
				return Val{T: intLit(iv.ExactString()), Typ: t}
			}
		}
		return c.floatConst(v, t)
	case constant.String:
		return c.strLit(constant.StringVal(v), t)
	}
	panic(unsupported{"constant kind " + v.Kind().String()})
}

func (c *FnCtx) floatConst(v constant.Value, t types.Type) Val {
	bits, _ := isFloat(t)
	sortArgs := "11 53"
	if bits == 32 {
		sortArgs = "8 24"
	}
	f := constant.ToFloat(v)
	num := constant.Num(f)
	den := constant.Denom(f)
	if num.Kind() != constant.Int || den.Kind() != constant.Int {
		panic(unsupported{"float constant " + v.String()})
	}
	ns := num.ExactString()
	neg := strings.HasPrefix(ns, "-")
	ns = strings.TrimPrefix(ns, "-")
	r := fmt.Sprintf("(/ %s.0 %s.0)", ns, den.ExactString())
	if neg {
		r = "(- " + r + ")"
	}
	return Val{T: fmt.Sprintf("((_ to_fp %s) RNE %s)", sortArgs, r), Typ: t}
}

func (c *FnCtx) strLit(s string, t types.Type) Val {
	name := "strlit_" + fmt.Sprintf("%x", []byte(s))
	if len(name) > 60 {
		name = name[:60] + fmt.Sprintf("_%d", len(s))
	}
	if !c.declSet[name] {
		c.declConst(name, "Str")
		c.facts = append(c.facts, eq(app("str_len", name), fmt.Sprint(len(s))), app(">", app("str_ptr", name), "0"))
		if len(s) <= 16 {
			mem := c.strMem()
			for i := 0; i < len(s); i++ {
				c.facts = append(c.facts, eq(app("select", mem, app("+", app("str_ptr", name), fmt.Sprint(i))), fmt.Sprint(s[i])))
			}
		}
	}
	return Val{T: name, Typ: t}
}

func (c *FnCtx) strMem() string {
	c.declConst("M_strbytes", "(Array Int Int)")
	if !c.declSet["M_strbytes_inv"] {
		c.declSet["M_strbytes_inv"] = true
		c.decls = append(c.decls, "(assert (forall ((i Int)) (! (and (<= 0 (select M_strbytes i)) (<= (select M_strbytes i) 255)) :pattern ((select M_strbytes i)))))")
	}
	return "M_strbytes"
}

func (c *FnCtx) wrap(term string, t types.Type, env *Env) string {
	if env.spec {
		return term
	}
	bits, signed, ok := intInfo(c.subst(t))
	if !ok || bits == 0 {
		return term
	}
	if isIntLiteralInRange(term, bits, signed) {
		return term
	}
	if signed {
		return app(fmt.Sprintf("wrapS%d", bits), term)
	}
	return app(fmt.Sprintf("wrapU%d", bits), term)
}

func parseIntLit(term string) (*big.Int, bool) {
	s := term
	neg := false
	if strings.HasPrefix(s, "(- ") && strings.HasSuffix(s, ")") {
		neg = true
		s = s[3 : len(s)-1]
	}
	if s == "" {
		return nil, false
	}
	for _, ch := range s {
		if ch < '0' || ch > '9' {
			return nil, false
		}
	}
	b, ok := new(big.Int).SetString(s, 10)
	if !ok {
		return nil, false
	}
	if neg {
		b.Neg(b)
	}
	return b, true
}

func isIntLiteralInRange(term string, bits int, signed bool) bool {
	b, ok := parseIntLit(term)
	if !ok {
		return false
	}
	lo, hi := intRange(bits, signed)
	return b.Cmp(lo) >= 0 && b.Cmp(hi) <= 0
}

func unparen(e ast.Expr) ast.Expr {
	for {
		p, ok := e.(*ast.ParenExpr)
		if !ok {
			return e
		}
		e = p.X
	}
}

// typeOf returns the static Go type of a code expression.
func (c *FnCtx) typeOf(e ast.Expr) types.Type {
	if tv, ok := c.info().Types[e]; ok {
		return c.subst(tv.Type)
	}
	if id, ok := e.(*ast.Ident); ok {
		if o := c.info().ObjectOf(id); o != nil {
			return c.subst(o.Type())
		}
	}
	return nil
}

func (c *FnCtx) eval(env *Env, e ast.Expr) Val {
	if !env.spec {
		if tv, ok := c.info().Types[e]; ok && tv.Value != nil {
			return c.constVal(tv.Value, tv.Type)
		}
	}
	switch x := e.(type) {
	case *ast.ParenExpr:
		return c.eval(env, x.X)
	case *ast.BasicLit:
		return c.evalLit(env, x)
	case *ast.Ident:
		return c.evalIdent(env, x)
	case *ast.UnaryExpr:
		return c.evalUnary(env, x)
	case *ast.BinaryExpr:
		return c.evalBinary(env, x)
	case *ast.CallExpr:
		return c.evalCall(env, x)
	case *ast.SelectorExpr:
		return c.evalSelector(env, x)
	case *ast.IndexExpr:
		return c.evalIndex(env, x)
	case *ast.SliceExpr:
		return c.evalSlice(env, x)
	case *ast.StarExpr:
		if v, ok := c.reinterpret(env, x); ok {
			return v
		}
		p := c.eval(env, x.X)
		return c.deref(env, p, x)
	case *ast.CompositeLit:
		return c.evalCompositeLit(env, x, false)
	case *ast.TypeAssertExpr:
		v, _ := c.evalTypeAssert(env, x, false)
		return v
	case *ast.FuncLit:
		id := c.fresh("closure")
		c.declConst(id, "Int")
		c.facts = append(c.facts, app(">", id, "0"))
		return Val{T: id, Typ: c.typeOf(x)}
	}
	c.unsup(e, "expression %T", e)
	return Val{}
}

func (c *FnCtx) evalLit(env *Env, x *ast.BasicLit) Val {
	switch x.Kind {
	case token.INT:
		v := constant.MakeFromLiteral(x.Value, token.INT, 0)
		return mathInt(intLit(v.ExactString()))
	case token.CHAR:
		v := constant.MakeFromLiteral(x.Value, token.CHAR, 0)
		return mathInt(intLit(v.ExactString()))
	case token.STRING:
		v := constant.MakeFromLiteral(x.Value, token.STRING, 0)
		return c.strLit(constant.StringVal(v), types.Typ[types.String])
	case token.FLOAT:
		v := constant.MakeFromLiteral(x.Value, token.FLOAT, 0)
		return c.floatConst(v, types.Typ[types.Float64])
	}
	c.unsup(x, "literal kind")
	return Val{}
}

func (c *FnCtx) evalIdent(env *Env, x *ast.Ident) Val {
	if env.spec {
		return c.specIdent(env, x)
	}
	obj := c.info().ObjectOf(x)
	if obj == nil {
		c.unsup(x, "unresolved identifier %s", x.Name)
	}
	return c.evalObj(env, obj, x)
}

func (c *FnCtx) evalObj(env *Env, obj types.Object, n ast.Node) Val {
	switch o := obj.(type) {
	case *types.Const:
		return c.constVal(o.Val(), o.Type())
	case *types.Nil:
		return Val{T: "nil", Typ: types.Typ[types.UntypedNil]}
	case *types.Var:
		if v, ok := env.st.vars[o]; ok {
			if c.boxed[o] {
				return c.loadFrom(env, v.T, o.Type())
			}
			return v
		}
		if o.Pkg() != nil && o.Parent() == o.Pkg().Scope() {
			return c.globalVar(env, o)
		}
		c.unsup(n, "variable %s has no value (captured or out of scope)", o.Name())
	case *types.Func:
		// function value
		name := "fn_" + sanitize(FuncKey(o))
		c.declConst(name, "Int")
		c.facts = append(c.facts, app(">", name, "0"))
		return Val{T: name, Typ: o.Type()}
	}
	c.unsup(n, "identifier %s (%T)", obj.Name(), obj)
	return Val{}
}

// globalVar: package-level variables are heap scalars; never-assigned ones with
// a simple initialiser are evaluated from the initialiser.
func (c *FnCtx) globalVar(env *Env, o *types.Var) Val {
	key := "G_" + sanitize(o.Pkg().Path()+"."+o.Name())
	if !c.E.assigned[o] && !c.globalsBusy[o] {
		if init := c.E.globalInit(o); init != nil {
			pkg := c.E.All[o.Pkg().Path()]
			if pkg != nil && simpleInit(init) {
				c.globalsBusy[o] = true
				defer delete(c.globalsBusy, o)
				var res Val
				ok := func() (ok bool) {
					defer func() {
						if r := recover(); r != nil {
							if _, isU := r.(unsupported); isU {
								ok = false
								return
							}
							panic(r)
						}
					}()
					save := c.noSafety
					c.noSafety = true
					defer func() { c.noSafety = save }()
					c.frames = append(c.frames, &inlineFrame{pkg: pkg, fn: &FuncInfo{Key: key}})
					defer func() { c.frames = c.frames[:len(c.frames)-1] }()
					st := &State{pc: "true", vars: map[types.Object]Val{}, heap: map[string]string{}, epoch: -1, alloc: "0"}
					res = c.eval(&Env{st: st}, init)
					return true
				}()
				if ok && !strings.Contains(res.T, "!") {
					res.Typ = o.Type()
					return res
				}
			}
		}
	}
	srt := c.sortOf(o.Type())
	if !c.E.assigned[o] {
		// never assigned anywhere in the loaded packages: an (unknown) constant, immune to havoc
		name := "GC_" + sanitize(o.Pkg().Path()+"."+o.Name())
		if !c.declSet[name] {
			c.declConst(name, srt)
			if inv := c.typeInv(name, o.Type(), env.st); inv != "true" {
				c.facts = append(c.facts, inv)
			}
		}
		return Val{T: name, Typ: o.Type()}
	}
	t := c.heapGet(env.st, key, srt, o.Type())
	c.assumeInv(env.st, t, o.Type())
	return Val{T: t, Typ: o.Type()}
}

func simpleInit(e ast.Expr) bool {
	ok := true
	ast.Inspect(e, func(n ast.Node) bool {
		switch n.(type) {
		case *ast.FuncLit:
			ok = false
		}
		return ok
	})
	return ok
}

func (e *Engine) globalInit(o *types.Var) ast.Expr {
	pkg := e.All[o.Pkg().Path()]
	if pkg == nil {
		return nil
	}
	for _, f := range pkg.Syntax {
		if f.Pos() <= o.Pos() && o.Pos() <= f.End() {
			for _, d := range f.Decls {
				gd, ok := d.(*ast.GenDecl)
				if !ok || gd.Tok != token.VAR {
					continue
				}
				for _, s := range gd.Specs {
					vs := s.(*ast.ValueSpec)
					for i, n := range vs.Names {
						if pkg.TypesInfo.Defs[n] == o && len(vs.Values) == len(vs.Names) {
							return vs.Values[i]
						}
					}
				}
			}
		}
	}
	return nil
}

func (c *FnCtx) toBool(v Val) string { return v.T }

func (c *FnCtx) nilOf(t types.Type) Val { return c.zero(t) }

// coerceNil turns an untyped nil into the zero value of t.
func (c *FnCtx) coerce(v Val, t types.Type) Val {
	if v.T == "nil" && v.Typ == types.Typ[types.UntypedNil] {
		if t == nil {
			return Val{T: "0", Typ: v.Typ}
		}
		return c.zero(t)
	}
	return v
}

func (c *FnCtx) evalUnary(env *Env, x *ast.UnaryExpr) Val {
	switch x.Op {
	case token.AND:
		return c.addrOf(env, x.X, x)
	case token.NOT:
		v := c.eval(env, x.X)
		return Val{T: not(v.T), Typ: v.Typ}
	case token.SUB:
		v := c.eval(env, x.X)
		if _, ok := isFloat(v.Typ); ok && v.Typ != untypedInt {
			return Val{T: app("fp.neg", v.T), Typ: v.Typ}
		}
		return Val{T: c.wrap(app("-", v.T), v.Typ, env), Typ: v.Typ}
	case token.ADD:
		return c.eval(env, x.X)
	case token.XOR:
		v := c.eval(env, x.X)
		// ^x == -x-1 for signed; for unsigned max - x
		bits, signed, ok := intInfo(v.Typ)
		if !ok {
			c.unsup(x, "^ on non-int")
		}
		if signed || bits == 0 {
			return Val{T: app("-", app("-", v.T), "1"), Typ: v.Typ}
		}
		_, hi := intRange(bits, false)
		return Val{T: app("-", bigLit(hi), v.T), Typ: v.Typ}
	case token.ARROW:
		if env.spec {
			c.unsup(x, "channel receive in a specification")
		}
		rv, _ := c.chanRecv(env.st, c.eval(env, x.X), x)
		return rv
	}
	c.unsup(x, "unary %s", x.Op)
	return Val{}
}

func isNilVal(v Val) bool { return v.T == "nil" && v.Typ == types.Typ[types.UntypedNil] }

func (c *FnCtx) evalBinary(env *Env, x *ast.BinaryExpr) Val {
	switch x.Op {
	case token.LAND, token.LOR, tokImplies:
		l := c.eval(env, x.X)
		if env.spec {
			r := c.eval(env, x.Y)
			switch x.Op {
			case token.LAND:
				return boolVal(and(l.T, r.T))
			case token.LOR:
				return boolVal(or(l.T, r.T))
			default:
				return boolVal(implies(l.T, r.T))
			}
		}
		// short circuit: evaluate the right operand in a forked state
		cond := l.T
		if x.Op == token.LOR {
			cond = not(l.T)
		}
		a, b := c.split(env.st, cond)
		r := c.eval(env.with(a), x.Y)
		rt := r.T
		j := c.join(a, b)
		env.st.become(j)
		if x.Op == token.LAND {
			return Val{T: and(l.T, rt), Typ: l.Typ}
		}
		return Val{T: or(l.T, rt), Typ: l.Typ}
	case tokIff:
		l := c.eval(env, x.X)
		r := c.eval(env, x.Y)
		return boolVal(eq(l.T, r.T))
	}
	l := c.eval(env, x.X)
	r := c.eval(env, x.Y)
	return c.binop(env, x.Op, l, r, x)
}

func (c *FnCtx) binop(env *Env, op token.Token, l, r Val, n ast.Node) Val {
	// nil handling
	if isNilVal(l) && !isNilVal(r) {
		l = c.coerce(l, r.Typ)
	}
	if isNilVal(r) && !isNilVal(l) {
		r = c.coerce(r, l.Typ)
	}
	if isNilVal(l) && isNilVal(r) {
		l, r = Val{T: "0", Typ: untypedInt}, Val{T: "0", Typ: untypedInt}
	}
	lt := c.subst(l.Typ)
	rt := c.subst(r.Typ)
	resT := lt
	if b, ok := lt.(*types.Basic); ok && b.Info()&types.IsUntyped != 0 {
		resT = rt
	}
	if lt == mathRealT || rt == mathRealT {
		// mathematical reals (specifications only): integers are embedded, floats must be
		// converted explicitly with real()
		toReal := func(v Val, t types.Type) string {
			if t == mathRealT {
				return v.T
			}
			if _, _, isI := intInfo(t); isI || t == untypedInt {
				return app("to_real", v.T)
			}
			c.unsup(n, "mixing a real with %s (use real())", t)
			return ""
		}
		a, b := toReal(l, lt), toReal(r, rt)
		switch op {
		case token.ADD:
			return Val{T: app("+", a, b), Typ: mathRealT}
		case token.SUB:
			return Val{T: app("-", a, b), Typ: mathRealT}
		case token.MUL:
			return Val{T: app("*", a, b), Typ: mathRealT}
		case token.EQL:
			return boolVal(eq(a, b))
		case token.NEQ:
			return boolVal(not(eq(a, b)))
		case token.LSS:
			return boolVal(app("<", a, b))
		case token.LEQ:
			return boolVal(app("<=", a, b))
		case token.GTR:
			return boolVal(app(">", a, b))
		case token.GEQ:
			return boolVal(app(">=", a, b))
		}
		c.unsup(n, "operator %s on reals", op)
	}
	_, lf := isFloat(lt)
	_, rf := isFloat(rt)
	if lt == untypedInt && rf {
		l = c.convert(env, l, rt, n)
		lt, lf = rt, true
	}
	if rt == untypedInt && lf {
		r = c.convert(env, r, lt, n)
		rt, rf = lt, true
	}
	if lf && rf {
		return c.floatBinop(op, l, r, resT, n)
	}
	switch op {
	case token.EQL, token.NEQ:
		var t string
		switch u := lt.Underlying().(type) {
		case *types.Interface:
			if _, isI := rt.Underlying().(*types.Interface); !isI {
				r = c.toIface(env, r, lt)
			}
			t = eq(l.T, r.T)
		case *types.Basic:
			if u.Info()&types.IsString != 0 {
				t = c.strEq(l.T, r.T)
			} else {
				t = eq(l.T, r.T)
			}
		case *types.Slice:
			// only comparison with nil is legal
			t = eq(app("sl_ptr", l.T), app("sl_ptr", r.T))
		default:
			if _, isI := rt.Underlying().(*types.Interface); isI {
				l = c.toIface(env, l, rt)
			}
			if c.hasStringField(lt) {
				c.unsup(n, "comparison of structs containing strings")
			}
			t = eq(l.T, r.T)
		}
		if op == token.NEQ {
			t = not(t)
		}
		return boolVal(t)
	case token.LSS, token.LEQ, token.GTR, token.GEQ:
		if b, ok := lt.Underlying().(*types.Basic); ok && b.Info()&types.IsString != 0 {
			c.unsup(n, "string ordering")
		}
		ops := map[token.Token]string{token.LSS: "<", token.LEQ: "<=", token.GTR: ">", token.GEQ: ">="}
		return boolVal(app(ops[op], l.T, r.T))
	case token.ADD:
		if b, ok := lt.Underlying().(*types.Basic); ok && b.Info()&types.IsString != 0 {
			return c.strConcat(env, l, r)
		}
		return Val{T: c.wrap(app("+", l.T, r.T), resT, env), Typ: resT}
	case token.SUB:
		return Val{T: c.wrap(app("-", l.T, r.T), resT, env), Typ: resT}
	case token.MUL:
		return Val{T: c.wrap(c.mulT(l.T, r.T), resT, env), Typ: resT}
	case token.QUO:
		if !env.spec {
			c.safe(env.st, "div", not(eq(r.T, "0")), n)
		}
		return Val{T: c.wrap(app("tdiv", l.T, r.T), resT, env), Typ: resT}
	case token.REM:
		if !env.spec {
			c.safe(env.st, "div", not(eq(r.T, "0")), n)
		}
		return Val{T: app("tmod", l.T, r.T), Typ: resT}
	case token.SHL, token.SHR:
		return c.shift(env, op, l, r, n)
	case token.AND, token.OR, token.XOR, token.AND_NOT:
		return c.bitop(env, op, l, r, resT, n)
	}
	c.unsup(n, "binary operator %s", op)
	return Val{}
}

func (c *FnCtx) hasStringField(t types.Type) bool {
	st, ok := t.Underlying().(*types.Struct)
	if !ok {
		return false
	}
	for i := 0; i < st.NumFields(); i++ {
		ft := st.Field(i).Type()
		if b, ok := ft.Underlying().(*types.Basic); ok && b.Info()&types.IsString != 0 {
			return true
		}
		if c.hasStringField(ft) {
			return true
		}
	}
	return false
}

// String equality is equality of content.  strid(s) stands for the content of s (an
// uninterpreted injection of contents into Int): two strings are equal iff their ids are;
// the length is a function of the content, and the empty string has one id.
func (c *FnCtx) strID(s string) string {
	if !c.declSet["strid"] {
		c.declSet["strid"] = true
		c.decls = append(c.decls,
			"(declare-fun strid (Str) Int)",
			"(declare-fun sidlen (Int) Int)",
			"(assert (forall ((a Str)) (! (and (= (str_len a) (sidlen (strid a))) (= (= (str_len a) 0) (= (strid a) 0))) :pattern ((strid a)))))")
	}
	return app("strid", s)
}

func (c *FnCtx) strEq(a, b string) string {
	if a == b {
		return "true"
	}
	return eq(c.strID(a), c.strID(b))
}

func (c *FnCtx) strConcat(env *Env, l, r Val) Val {
	n := c.fresh("cat")
	c.declConst(n, "Str")
	c.facts = append(c.facts, eq(app("str_len", n), app("+", app("str_len", l.T), app("str_len", r.T))), app(">=", app("str_ptr", n), "0"))
	return Val{T: n, Typ: l.Typ}
}

func (c *FnCtx) floatBinop(op token.Token, l, r Val, resT types.Type, n ast.Node) Val {
	if _, ok := isFloat(resT); !ok {
		resT = r.Typ
	}
	switch op {
	case token.EQL, token.NEQ, token.LSS, token.LEQ, token.GTR, token.GEQ:
		if bits, ok := isFloat(c.subst(l.Typ)); ok {
			if rb, ok2 := isFloat(c.subst(r.Typ)); ok2 && rb == bits {
				c.fpOrderFacts(l.T, r.T, bits)
				c.fpOrderFacts(r.T, l.T, bits)
			}
		}
	}
	switch op {
	case token.ADD:
		return Val{T: app("fp.add", "RNE", l.T, r.T), Typ: resT}
	case token.SUB:
		return Val{T: app("fp.sub", "RNE", l.T, r.T), Typ: resT}
	case token.MUL:
		return Val{T: app("fp.mul", "RNE", l.T, r.T), Typ: resT}
	case token.QUO:
		return Val{T: app("fp.div", "RNE", l.T, r.T), Typ: resT}
	case token.EQL:
		return boolVal(app("fp.eq", l.T, r.T))
	case token.NEQ:
		return boolVal(not(app("fp.eq", l.T, r.T)))
	case token.LSS:
		return boolVal(app("fp.lt", l.T, r.T))
	case token.LEQ:
		return boolVal(app("fp.leq", l.T, r.T))
	case token.GTR:
		return boolVal(app("fp.gt", l.T, r.T))
	case token.GEQ:
		return boolVal(app("fp.geq", l.T, r.T))
	}
	c.unsup(n, "float operator %s", op)
	return Val{}
}

func (c *FnCtx) shift(env *Env, op token.Token, l, r Val, n ast.Node) Val {
	resT := l.Typ
	bits, signed, _ := intInfo(c.subst(resT))
	if !env.spec {
		if _, rs, ok := intInfo(c.subst(r.Typ)); ok && rs {
			c.safe(env.st, "shift", app(">=", r.T, "0"), n)
		}
	}
	k, isConst := parseIntLit(r.T)
	if !isConst {
		// symbolic shift count in integer mode: 2^k through pow2
		p := c.pow2(r.T)
		if op == token.SHL {
			if env.spec || bits == 0 {
				return Val{T: c.mulT(l.T, p), Typ: resT}
			}
			// count >= width gives 0 in Go; product wraps
			return Val{T: ite(app(">=", r.T, fmt.Sprint(bits)), "0", c.wrap(c.mulT(l.T, p), resT, env)), Typ: resT}
		}
		fl := c.divT(l.T, p) // floor division = arithmetic shift
		if env.spec || bits == 0 {
			return Val{T: fl, Typ: resT}
		}
		fill := "0"
		if signed {
			fill = ite(app("<", l.T, "0"), "(- 1)", "0")
		}
		return Val{T: ite(app(">=", r.T, fmt.Sprint(bits)), fill, fl), Typ: resT}
	}
	if k.Sign() < 0 {
		c.unsup(n, "negative constant shift")
	}
	if k.Cmp(big.NewInt(4096)) > 0 {
		c.unsup(n, "huge constant shift")
	}
	p := bigLit(pow2(int(k.Int64())))
	if op == token.SHL {
		return Val{T: c.wrap(app("*", l.T, p), resT, env), Typ: resT}
	}
	return Val{T: app("div", l.T, p), Typ: resT}
}

// mulT / divT: product and floor quotient.  When one operand is a symbolic power of two the
// operation is kept as the uninterpreted mulp2 / divp2 applied to the exponent: code and
// specification then agree by congruence as soon as the exponents agree, and the solver is
// spared non-linear arithmetic over (pow2 n).  Leaving the two functions uninterpreted only
// weakens what can be proved (any fact shown holds for every interpretation, the real one
// included).
func (c *FnCtx) mulT(a, b string) string {
	if e, ok := pow2Arg(b); ok {
		c.declP2()
		return app("mulp2", a, e)
	}
	if e, ok := pow2Arg(a); ok {
		c.declP2()
		return app("mulp2", b, e)
	}
	return app("*", a, b)
}

func (c *FnCtx) divT(a, b string) string {
	if e, ok := pow2Arg(b); ok {
		c.declP2()
		return app("divp2", a, e)
	}
	return app("div", a, b)
}

func pow2Arg(t string) (string, bool) {
	if strings.HasPrefix(t, "(pow2 ") && strings.HasSuffix(t, ")") {
		return t[len("(pow2 ") : len(t)-1], true
	}
	return "", false
}

func (c *FnCtx) declP2() {
	if !c.declSet["mulp2"] {
		c.declSet["mulp2"] = true
		c.decls = append(c.decls, "(declare-fun mulp2 (Int Int) Int)", "(declare-fun divp2 (Int Int) Int)")
		// their meaning for every exponent a machine shift can have, as linear facts per exponent
		var m, d strings.Builder
		m.WriteString("(assert (forall ((x Int) (n Int)) (! (and")
		d.WriteString("(assert (forall ((x Int) (n Int)) (! (and")
		for k := 0; k <= 128; k++ {
			p := pow2(k).String()
			fmt.Fprintf(&m, " (=> (= n %d) (= (mulp2 x n) (* %s x)))", k, p)
			fmt.Fprintf(&d, " (=> (= n %d) (= (divp2 x n) (div x %s)))", k, p)
		}
		p128 := pow2(128).String()
		fmt.Fprintf(&m, " (=> (<= n 0) (= (mulp2 x n) x)) (=> (= x 0) (= (mulp2 x n) 0)) (=> (and (> n 128) (> x 0)) (> (mulp2 x n) %s)) (=> (and (> n 128) (< x 0)) (< (mulp2 x n) (- %s)))", p128, p128)
		fmt.Fprintf(&d, " (=> (<= n 0) (= (divp2 x n) x)) (=> (and (> n 128) (<= (- %s) x) (< x %s)) (= (divp2 x n) (ite (< x 0) (- 1) 0)))", p128, p128)
		for _, w := range []int{8, 16, 32, 64} {
			// shifting a w-bit value right by w or more leaves only the sign
			fmt.Fprintf(&d, " (=> (and (>= n %d) (<= (- %s) x) (< x %s)) (= (divp2 x n) (ite (< x 0) (- 1) 0)))", w, pow2(w-1).String(), pow2(w).String())
		}
		m.WriteString(") :pattern ((mulp2 x n)))))")
		d.WriteString(") :pattern ((divp2 x n)))))")
		c.decls = append(c.decls, m.String(), d.String())
	}
}

func (c *FnCtx) pow2(k string) string {
	if lit, ok := parseIntLit(k); ok && lit.IsInt64() && lit.Int64() <= 4096 {
		if lit.Sign() <= 0 {
			return "1"
		}
		return pow2(int(lit.Int64())).String()
	}
	if !c.declSet["pow2"] {
		c.declSet["pow2"] = true
		// 2^n as a table for 0 <= n <= 128 (every machine shift), an uninterpreted
		// function with the facts needed for comparisons beyond that
		// (declared, not defined: equal arguments give equal powers by congruence without
		// expanding a 129-way case distinction; literal arguments are folded above)
		c.decls = append(c.decls, "(declare-fun pow2 (Int) Int)",
			"(assert (forall ((n Int)) (! (and (>= (pow2 n) 1) (=> (<= n 0) (= (pow2 n) 1)) (=> (> n 128) (> (pow2 n) "+pow2(128).String()+"))) :pattern ((pow2 n)))))")
		var b strings.Builder
		b.WriteString("(assert (and")
		for k := 0; k <= 128; k++ {
			fmt.Fprintf(&b, " (= (pow2 %d) %s)", k, pow2(k).String())
		}
		b.WriteString("))")
		c.decls = append(c.decls, b.String())
	}
	return app("pow2", k)
}

func (c *FnCtx) bitop(env *Env, op token.Token, l, r Val, resT types.Type, n ast.Node) Val {
	// integer mode supports masks 2^k-1 and single-bit tests only
	if op == token.AND {
		if k, ok := parseIntLit(r.T); ok {
			if m := maskBits(k); m >= 0 {
				return Val{T: app("mod", l.T, bigLit(pow2(m))), Typ: resT}
			}
		}
		if k, ok := parseIntLit(l.T); ok {
			if m := maskBits(k); m >= 0 {
				return Val{T: app("mod", r.T, bigLit(pow2(m))), Typ: resT}
			}
		}
	}
	// one operand a single literal bit 2^k (flag words): exact in integer arithmetic, with
	// bit k of x read as (x div 2^k) mod 2 (floor division: also the two's-complement bit of a
	// negative x)
	singleBit := func(t string) (string, bool) {
		if k, ok := parseIntLit(t); ok && k.Sign() > 0 && k.BitLen() <= 64 {
			if new(big.Int).And(k, new(big.Int).Sub(k, big.NewInt(1))).Sign() == 0 {
				return k.String(), true
			}
		}
		return "", false
	}
	xT, pT, okBit := "", "", false
	if p, ok := singleBit(r.T); ok {
		xT, pT, okBit = l.T, p, true
	} else if p, ok := singleBit(l.T); ok && op != token.AND_NOT {
		xT, pT, okBit = r.T, p, true
	}
	if okBit {
		has := eq(app("mod", app("div", xT, pT), "2"), "1")
		switch op {
		case token.AND:
			return Val{T: ite(has, pT, "0"), Typ: resT}
		case token.OR:
			return Val{T: ite(has, xT, app("+", xT, pT)), Typ: resT}
		case token.AND_NOT:
			return Val{T: ite(has, app("-", xT, pT), xT), Typ: resT}
		case token.XOR:
			return Val{T: ite(has, app("-", xT, pT), app("+", xT, pT)), Typ: resT}
		}
	}
	fn := map[token.Token]string{token.AND: "bitand", token.OR: "bitor", token.XOR: "bitxor", token.AND_NOT: "bitandnot"}[op]
	bits, signed, _ := intInfo(c.subst(resT))
	name := fmt.Sprintf("%s_%d_%v", fn, bits, signed)
	if !c.declSet[name] {
		c.declSet[name] = true
		c.decls = append(c.decls, fmt.Sprintf("(declare-fun %s (Int Int) Int)", name))
	}
	t := app(name, l.T, r.T)
	if bits > 0 && !env.spec {
		lo, hi := intRange(bits, signed)
		c.facts = append(c.facts, and(app("<=", bigLit(lo), t), app("<=", t, bigLit(hi))))
	}
	if op == token.OR && !strings.Contains(t, "!q") {
		// packing of bit fields: OR of a multiple of 2^k with a value below 2^k is their sum.
		// Stated for every k that occurs as a literal shift in the operands.
		for _, k := range literalShifts(l.T + " " + r.T) {
			p := pow2(k).String()
			c.facts = append(c.facts,
				implies(and(eq(app("mod", l.T, p), "0"), app("<=", "0", l.T), app("<=", "0", r.T), app("<", r.T, p)), eq(t, app("+", l.T, r.T))),
				implies(and(eq(app("mod", r.T, p), "0"), app("<=", "0", r.T), app("<=", "0", l.T), app("<", l.T, p)), eq(t, app("+", l.T, r.T))))
		}
	}
	return Val{T: t, Typ: resT}
}

var mulLitRe = regexp.MustCompile(` (\d+)\)|\(\* (\d+) `)

// literalShifts: the exponents k of literal multiplications by 2^k (left shifts by a constant)
// occurring in a term.
func literalShifts(term string) []int {
	seen := map[int]bool{}
	var out []int
	for _, m := range mulLitRe.FindAllStringSubmatch(term, -1) {
		lit := m[1]
		if lit == "" {
			lit = m[2]
		}
		v, ok := new(big.Int).SetString(lit, 10)
		if !ok || v.Sign() <= 0 || v.BitLen() > 64 {
			continue
		}
		k := v.BitLen() - 1
		if k >= 1 && new(big.Int).Lsh(big.NewInt(1), uint(k)).Cmp(v) == 0 && !seen[k] {
			seen[k] = true
			out = append(out, k)
		}
	}
	sort.Ints(out)
	return out
}

func maskBits(k *big.Int) int {
	if k.Sign() <= 0 {
		return -1
	}
	kp := new(big.Int).Add(k, big.NewInt(1))
	if kp.BitLen()-1 >= 0 && new(big.Int).Lsh(big.NewInt(1), uint(kp.BitLen()-1)).Cmp(kp) == 0 {
		return kp.BitLen() - 1
	}
	return -1
}

// ---------------------------------------------------------------------------
// conversions

func (c *FnCtx) convert(env *Env, v Val, target types.Type, n ast.Node) Val {
	target = c.subst(target)
	if isNilVal(v) {
		return c.zero(target)
	}
	src := c.subst(v.Typ)
	if src == nil {
		return Val{T: v.T, Typ: target}
	}
	tb, tIsInt := 0, false
	if b, _, ok := intInfo(target); ok {
		tb, tIsInt = b, true
	}
	_, _, sIsInt := intInfo(src)
	_, sIsF := isFloat(src)
	tfBits, tIsF := isFloat(target)
	switch {
	case tIsInt && sIsInt:
		_ = tb
		return Val{T: c.wrap(v.T, target, env), Typ: target}
	case tIsF && sIsInt && !(src == untypedInt && false):
		sa := "11 53"
		if tfBits == 32 {
			sa = "8 24"
		}
		if _, lit := parseIntLit(v.T); !lit {
			return c.intToFloat(v, target, tfBits)
		}
		return Val{T: fmt.Sprintf("((_ to_fp %s) RNE (to_real %s))", sa, v.T), Typ: target}
	case tIsF && sIsF:
		sb, _ := isFloat(src)
		if sb == tfBits {
			return Val{T: v.T, Typ: target}
		}
		sa := "11 53"
		if tfBits == 32 {
			sa = "8 24"
		}
		return Val{T: fmt.Sprintf("((_ to_fp %s) RNE %s)", sa, v.T), Typ: target}
	case tIsInt && sIsF:
		fn := "f2i_" + c.typeKey(src) + "_" + c.typeKey(target)
		if !c.declSet[fn] {
			c.declSet[fn] = true
			c.decls = append(c.decls, fmt.Sprintf("(declare-fun %s (%s) Int)", fn, c.sortOf(src)))
		}
		t := app(fn, v.T)
		c.facts = append(c.facts, c.typeInv(t, target, env.st))
		// exact for values in range: trunc
		return Val{T: t, Typ: target}
	}
	if _, ok := target.Underlying().(*types.Interface); ok {
		if _, isI := src.Underlying().(*types.Interface); isI {
			return Val{T: v.T, Typ: target}
		}
		return c.toIface(env, v, target)
	}
	ss, ts := c.sortOf(src), c.sortOf(target)
	if ss == ts {
		return Val{T: v.T, Typ: target}
	}
	// string <-> []byte and friends: opaque
	if ts == "Str" || ss == "Str" {
		r := c.freshVal("conv", target, env.st)
		if ss == "Slice" && ts == "Str" {
			c.facts = append(c.facts, eq(app("str_len", r.T), app("sl_len", v.T)))
		}
		if ss == "Str" && ts == "Slice" {
			if sl, ok := target.Underlying().(*types.Slice); ok {
				if b, ok := sl.Elem().Underlying().(*types.Basic); ok && b.Kind() == types.Uint8 {
					c.facts = append(c.facts, eq(app("sl_len", r.T), app("str_len", v.T)))
				}
			}
		}
		return r
	}
	c.unsup(n, "conversion %s -> %s", src, target)
	return Val{}
}

// toIface boxes a concrete value into an interface value.
func (c *FnCtx) toIface(env *Env, v Val, iface types.Type) Val {
	if isNilVal(v) {
		return c.zero(iface)
	}
	src := c.subst(v.Typ)
	if _, ok := src.Underlying().(*types.Interface); ok {
		return Val{T: v.T, Typ: iface}
	}
	tag := c.typeTag(src)
	if _, ok := src.Underlying().(*types.Pointer); ok {
		return Val{T: app("mk_Iface", tag, v.T), Typ: iface}
	}
	// boxed copy
	if env.spec {
		// specs cannot allocate: use an uninterpreted box address function
		fn := "boxaddr_" + c.typeKey(src)
		if !c.declSet[fn] {
			c.declSet[fn] = true
			c.decls = append(c.decls, fmt.Sprintf("(declare-fun %s (%s) Int)", fn, c.sortOf(src)))
		}
		return Val{T: app("mk_Iface", tag, app(fn, v.T)), Typ: iface}
	}
	addr := c.allocate(env.st, "8")
	key := "B_" + c.typeKey(src)
	arr := c.heapGet(env.st, key, "(Array Int "+c.sortOf(src)+")", src)
	c.heapSet(env.st, key, app("store", arr, addr, v.T))
	return Val{T: app("mk_Iface", tag, addr), Typ: iface}
}

func (c *FnCtx) unbox(env *Env, ifv Val, t types.Type) Val {
	t = c.subst(t)
	if _, ok := t.Underlying().(*types.Pointer); ok {
		return Val{T: app("if_ptr", ifv.T), Typ: t}
	}
	key := "B_" + c.typeKey(t)
	arr := c.heapGet(env.st, key, "(Array Int "+c.sortOf(t)+")", t)
	term := app("select", arr, app("if_ptr", ifv.T))
	c.assumeInv(env.st, term, t)
	return Val{T: term, Typ: t}
}

func (c *FnCtx) evalTypeAssert(env *Env, x *ast.TypeAssertExpr, commaOk bool) (Val, string) {
	v := c.eval(env, x.X)
	var target types.Type
	if env.spec {
		target = c.specType(env, x.Type)
	} else {
		target = c.typeOf(x.Type)
	}
	return c.typeAssert(env, v, target, commaOk, x)
}

func (c *FnCtx) typeAssert(env *Env, v Val, target types.Type, commaOk bool, n ast.Node) (Val, string) {
	target = c.subst(target)
	if _, isI := target.Underlying().(*types.Interface); isI {
		ok := c.implementsPred(v, target)
		if !commaOk && !env.spec {
			c.safe(env.st, "typeassert", ok, n)
		}
		return Val{T: v.T, Typ: target}, ok
	}
	ok := eq(app("if_tab", v.T), c.typeTag(target))
	if !commaOk && !env.spec {
		c.safe(env.st, "typeassert", ok, n)
	}
	res := c.unbox(env, v, target)
	if commaOk {
		z := c.zero(target)
		res = Val{T: ite(ok, res.T, z.T), Typ: target}
	}
	return res, ok
}

func (c *FnCtx) implementsPred(v Val, iface types.Type) string {
	it := iface.Underlying().(*types.Interface)
	if it.NumMethods() == 0 {
		return not(eq(app("if_tab", v.T), "0"))
	}
	fn := "impl_" + c.typeKey(iface)
	if !c.declSet[fn] {
		c.declSet[fn] = true
		c.decls = append(c.decls, fmt.Sprintf("(declare-fun %s (Int) Bool)", fn), fmt.Sprintf("(assert (not (%s 0)))", fn))
	}
	return app(fn, app("if_tab", v.T))
}

// ---------------------------------------------------------------------------
// selectors, index, slices, deref, address-of

func (c *FnCtx) deref(env *Env, p Val, n ast.Node) Val {
	pt, ok := c.subst(p.Typ).Underlying().(*types.Pointer)
	if !ok {
		c.unsup(n, "dereference of non-pointer %s", p.Typ)
	}
	if !env.spec {
		c.safe(env.st, "nil", not(eq(p.T, "0")), n)
		c.rawGuard(env, p.T, pt.Elem(), n)
	}
	return c.loadFrom(env, p.T, pt.Elem())
}

// rawGuard: contracts with a `guard` clause state where raw *Value pointers may point
// (e.g. inside the value stack); every load/store through such a pointer is checked.
func (c *FnCtx) rawGuard(env *Env, addr string, elem types.Type, n ast.Node) {
	if c.C == nil || c.C.Guard == nil || c.inSpec > 0 || !c.isMemStruct(elem) {
		return
	}
	pos := n.Pos()
	if len(c.frames) > 1 {
		pos = c.Fn.Decl.Body.Rbrace // names of the contract's function; locals of inlined callees are not visible
	}
	genv := c.specEnvAt(env.st, pos)
	genv.bound = map[string]Val{"addr": {T: addr, Typ: untypedInt}}
	g := c.eval(genv, c.C.Guard.Expr)
	c.safe(env.st, "guard", g.T, n)
}

// loadFrom reads a whole value of type t at address addr.
func (c *FnCtx) loadFrom(env *Env, addr string, t types.Type) Val {
	t = c.subst(t)
	if _, st, ok := c.structOf(t); ok && !isOpaqueStruct(t) && !c.isMemStruct(t) {
		name := c.sortOf(t)
		var fs []string
		for i := 0; i < st.NumFields(); i++ {
			fs = append(fs, c.readField(env.st, addr, t, st.Field(i)).T)
		}
		if len(fs) == 0 {
			fs = []string{"0"}
		}
		return Val{T: app("mk_"+name, fs...), Typ: t}
	}
	return c.readMem(env.st, addr, t)
}

// isMemStruct: struct types that live in flat element memory (because the
// code takes raw pointers into slices of them) rather than in per-field heaps.
func (c *FnCtx) isMemStruct(t types.Type) bool {
	n, ok := c.subst(t).(*types.Named)
	if !ok {
		return false
	}
	if n.Obj().Pkg() == nil {
		return false
	}
	switch n.Obj().Pkg().Path() + "." + n.Obj().Name() {
	case RepoModule + "/value.Value":
		return true
	}
	return false
}

func (c *FnCtx) storeTo(env *Env, addr string, t types.Type, v string) {
	t = c.subst(t)
	if _, st, ok := c.structOf(t); ok && !isOpaqueStruct(t) && !c.isMemStruct(t) {
		for i := 0; i < st.NumFields(); i++ {
			f := st.Field(i)
			c.writeField(env.st, addr, t, f, app(c.fieldAcc(t, f.Name()), v))
		}
		return
	}
	c.writeMem(env.st, addr, t, v)
}

func (c *FnCtx) evalSelector(env *Env, x *ast.SelectorExpr) Val {
	if env.spec {
		return c.specSelector(env, x)
	}
	info := c.info()
	if sel, ok := info.Selections[x]; ok {
		switch sel.Kind() {
		case types.FieldVal:
			base := c.eval(env, x.X)
			return c.fieldPath(env, base, sel.Index(), x)
		case types.MethodVal, types.MethodExpr:
			c.unsup(x, "method value %s", x.Sel.Name)
		}
	}
	// qualified identifier
	if obj := info.Uses[x.Sel]; obj != nil {
		return c.evalObj(env, obj, x)
	}
	c.unsup(x, "selector %s", x.Sel.Name)
	return Val{}
}

// fieldPath follows a (possibly embedded) field path from base.
func (c *FnCtx) fieldPath(env *Env, base Val, index []int, n ast.Node) Val {
	cur := base
	for _, i := range index {
		t := c.subst(cur.Typ)
		if pt, ok := t.Underlying().(*types.Pointer); ok {
			if !env.spec {
				c.safe(env.st, "nil", not(eq(cur.T, "0")), n)
			}
			_, st, ok := c.structOf(pt.Elem())
			if !ok {
				c.unsup(n, "field of non-struct pointer")
			}
			if isOpaqueStruct(pt.Elem()) {
				c.unsup(n, "field of external struct %s", pt.Elem())
			}
			if !env.spec {
				c.guardedAccess(env, cur.T, pt.Elem(), st, st.Field(i), false, n)
			}
			cur = c.readField(env.st, cur.T, pt.Elem(), st.Field(i))
			continue
		}
		_, st, ok := c.structOf(t)
		if !ok {
			c.unsup(n, "field access on %s", t)
		}
		f := st.Field(i)
		cur = Val{T: app(c.fieldAcc(t, f.Name()), cur.T), Typ: f.Type()}
	}
	return cur
}

func (c *FnCtx) sliceElemType(t types.Type) (types.Type, bool) {
	if s, ok := c.subst(t).Underlying().(*types.Slice); ok {
		return s.Elem(), true
	}
	return nil, false
}

func isString(t types.Type) bool {
	b, ok := t.Underlying().(*types.Basic)
	return ok && b.Info()&types.IsString != 0
}

func (c *FnCtx) evalIndex(env *Env, x *ast.IndexExpr) Val {
	if !env.spec {
		// generic instantiation f[T]
		if tv, ok := c.info().Types[x.X]; ok {
			if _, isSig := tv.Type.Underlying().(*types.Signature); isSig {
				return c.eval(env, x.X)
			}
		}
	}
	base := c.eval(env, x.X)
	idx := c.eval(env, x.Index)
	return c.indexVal(env, base, idx, x)
}

func (c *FnCtx) indexVal(env *Env, base, idx Val, n ast.Node) Val {
	bt := c.subst(base.Typ)
	if pt, ok := bt.Underlying().(*types.Pointer); ok {
		// pointer to array
		if _, isArr := pt.Elem().Underlying().(*types.Array); isArr {
			base = c.deref(env, base, n)
			bt = c.subst(base.Typ)
		}
	}
	switch u := bt.Underlying().(type) {
	case *types.Slice:
		if !env.spec {
			c.safe(env.st, "index", and(app("<=", "0", idx.T), app("<", idx.T, app("sl_len", base.T))), n)
		}
		return c.loadFrom(env, c.elemAddr(app("sl_ptr", base.T), idx.T, u.Elem()), u.Elem())
	case *types.Array:
		if !env.spec {
			c.safe(env.st, "index", and(app("<=", "0", idx.T), app("<", idx.T, fmt.Sprint(u.Len()))), n)
		}
		t := app("select", base.T, idx.T)
		c.assumeInv(env.st, t, u.Elem())
		return Val{T: t, Typ: u.Elem()}
	case *types.Basic:
		if u.Info()&types.IsString != 0 {
			if !env.spec {
				c.safe(env.st, "index", and(app("<=", "0", idx.T), app("<", idx.T, app("str_len", base.T))), n)
			}
			return Val{T: app("select", c.strMem(), app("+", app("str_ptr", base.T), idx.T)), Typ: types.Typ[types.Uint8]}
		}
	case *types.Map:
		v, _ := c.mapGet(env, base, idx, u)
		return v
	}
	c.unsup(n, "index of %s", bt)
	return Val{}
}

func (c *FnCtx) mapKeys(u *types.Map) (string, string, string, string) {
	k := c.typeKey(u.Key()) + "__" + c.typeKey(u.Elem())
	ks := c.mapKeySort(u.Key())
	es := c.sortOf(u.Elem())
	return "MD_" + k, "(Array Int (Array " + ks + " Bool))", "MV_" + k, "(Array Int (Array " + ks + " " + es + "))"
}

func (c *FnCtx) mapGet(env *Env, m, k Val, u *types.Map) (Val, string) {
	dk, ds, vk, vs := c.mapKeys(u)
	kt := c.mapKeyTerm(k, u.Key())
	dom := app("select", c.heapGet(env.st, dk, ds, nil), m.T)
	vals := app("select", c.heapGet(env.st, vk, vs, nil), m.T)
	ok := app("select", dom, kt)
	raw := app("select", vals, kt)
	c.assumeInv(env.st, raw, u.Elem())
	return Val{T: ite(ok, raw, c.zero(u.Elem()).T), Typ: u.Elem()}, ok
}

func (c *FnCtx) mapSet(env *Env, m, k, v Val, u *types.Map, n ast.Node) {
	dk, ds, vk, vs := c.mapKeys(u)
	kt := c.mapKeyTerm(k, u.Key())
	c.safe(env.st, "nilmap", not(eq(m.T, "0")), n)
	domH := c.heapGet(env.st, dk, ds, nil)
	valH := c.heapGet(env.st, vk, vs, nil)
	c.heapSet(env.st, dk, app("store", domH, m.T, app("store", app("select", domH, m.T), kt, "true")))
	c.heapSet(env.st, vk, app("store", valH, m.T, app("store", app("select", valH, m.T), kt, v.T)))
}

func (c *FnCtx) mapDelete(env *Env, m, k Val, u *types.Map) {
	dk, ds, _, _ := c.mapKeys(u)
	domH := c.heapGet(env.st, dk, ds, nil)
	c.heapSet(env.st, dk, app("store", domH, m.T, app("store", app("select", domH, m.T), c.mapKeyTerm(k, u.Key()), "false")))
}

// maps keyed by strings are keyed by the strings' contents (strid)
func (c *FnCtx) mapKeySort(kt types.Type) string {
	if isString(kt) {
		return "Int"
	}
	return c.sortOf(kt)
}

func (c *FnCtx) mapKeyTerm(k Val, kt types.Type) string {
	if isString(kt) {
		return c.strID(k.T)
	}
	return k.T
}

func (c *FnCtx) evalSlice(env *Env, x *ast.SliceExpr) Val {
	base := c.eval(env, x.X)
	var lo, hi Val
	lo = mathInt("0")
	if x.Low != nil {
		lo = c.eval(env, x.Low)
	}
	bt := c.subst(base.Typ)
	switch u := bt.Underlying().(type) {
	case *types.Slice:
		if x.High != nil {
			hi = c.eval(env, x.High)
		} else {
			hi = mathInt(app("sl_len", base.T))
		}
		if x.Max != nil {
			c.unsup(x, "3-index slice")
		}
		if !env.spec {
			c.safe(env.st, "slice", and(app("<=", "0", lo.T), app("<=", lo.T, hi.T), app("<=", hi.T, app("sl_cap", base.T))), x)
		}
		ptr := c.elemAddr(app("sl_ptr", base.T), lo.T, u.Elem())
		return Val{T: app("mk_Slice", ptr, app("-", hi.T, lo.T), app("-", app("sl_cap", base.T), lo.T)), Typ: base.Typ}
	case *types.Basic:
		if u.Info()&types.IsString != 0 {
			if x.High != nil {
				hi = c.eval(env, x.High)
			} else {
				hi = mathInt(app("str_len", base.T))
			}
			if !env.spec {
				c.safe(env.st, "slice", and(app("<=", "0", lo.T), app("<=", lo.T, hi.T), app("<=", hi.T, app("str_len", base.T))), x)
			}
			return Val{T: app("mk_Str", app("+", app("str_ptr", base.T), lo.T), app("-", hi.T, lo.T)), Typ: base.Typ}
		}
	}
	c.unsup(x, "slice expression on %s", bt)
	return Val{}
}

// embeddedAddr: the receiver of a promoted pointer-receiver method, p.M() with M declared on an
// embedded struct: the interior address &p.E1.E2… (or the embedded pointer itself when the last
// embedded field is a pointer).  ok is false when the path does not start from a pointer.
func (c *FnCtx) embeddedAddr(env *Env, base Val, idx []int, n ast.Node) (Val, bool) {
	cur := base
	for k, i := range idx {
		pt, isPtr := c.subst(cur.Typ).Underlying().(*types.Pointer)
		if !isPtr {
			return Val{}, false
		}
		_, st, ok := c.structOf(pt.Elem())
		if !ok {
			return Val{}, false
		}
		f := st.Field(i)
		last := k == len(idx)-1
		if _, fieldIsPtr := c.subst(f.Type()).Underlying().(*types.Pointer); fieldIsPtr {
			c.safe(env.st, "nil", not(eq(cur.T, "0")), n)
			cur = c.readField(env.st, cur.T, pt.Elem(), f)
			if last {
				return cur, true
			}
			continue
		}
		if last {
			c.safe(env.st, "nil", not(eq(cur.T, "0")), n)
			return Val{T: c.interiorAddr(cur.T, pt.Elem(), f), Typ: types.NewPointer(f.Type())}, true
		}
		// an embedded struct value in the middle of the path: continue from its interior address
		cur = Val{T: c.interiorAddr(cur.T, pt.Elem(), f), Typ: types.NewPointer(f.Type())}
	}
	return Val{}, false
}

// addrOf evaluates &x.
func (c *FnCtx) addrOf(env *Env, x ast.Expr, n ast.Node) Val {
	x = unparen(x)
	switch y := x.(type) {
	case *ast.Ident:
		if !env.spec {
			if o, ok := c.info().ObjectOf(y).(*types.Var); ok && c.boxed[o] {
				if cell, ok := env.st.vars[o]; ok {
					return Val{T: cell.T, Typ: types.NewPointer(o.Type())}
				}
			}
		} else {
			// &x in a specification (loop invariant, call-site assertion): x a local of the
			// function that lives in memory; the innermost declaration of that name in scope
			var best types.Object
			for o := range env.st.vars {
				if v, ok := o.(*types.Var); ok && c.boxed[v] && o.Name() == y.Name {
					if best == nil || o.Pos() > best.Pos() {
						best = o
					}
				}
			}
			if best != nil {
				return Val{T: env.st.vars[best].T, Typ: types.NewPointer(best.Type())}
			}
		}
	case *ast.CompositeLit:
		return c.evalCompositeLit(env, y, true)
	case *ast.IndexExpr:
		base := c.eval(env, y.X)
		idx := c.eval(env, y.Index)
		if elem, ok := c.sliceElemType(base.Typ); ok {
			if !env.spec {
				c.safe(env.st, "index", and(app("<=", "0", idx.T), app("<", idx.T, app("sl_len", base.T))), n)
			}
			return Val{T: c.elemAddr(app("sl_ptr", base.T), idx.T, elem), Typ: types.NewPointer(elem)}
		}
	case *ast.SelectorExpr:
		if env.spec {
			// &p.f in a specification: the interior address of field f of the object p
			base := c.eval(env, y.X)
			pt, isPtr := c.subst(base.Typ).Underlying().(*types.Pointer)
			if !isPtr {
				break
			}
			_, stt, ok := c.structOf(pt.Elem())
			if !ok {
				break
			}
			for i := 0; i < stt.NumFields(); i++ {
				if stt.Field(i).Name() == y.Sel.Name {
					return Val{T: c.interiorAddr(base.T, pt.Elem(), stt.Field(i)), Typ: types.NewPointer(stt.Field(i).Type())}
				}
			}
			break
		}
		if sel, ok := c.info().Selections[y]; ok && sel.Kind() == types.FieldVal {
			// &p.f with p a pointer: interior pointer
			base := c.eval(env, y.X)
			idx := sel.Index()
			cur := base
			for k, i := range idx {
				pt, isPtr := c.subst(cur.Typ).Underlying().(*types.Pointer)
				if !isPtr {
					c.unsup(n, "address of field of non-pointer base")
				}
				_, st, _ := c.structOf(pt.Elem())
				f := st.Field(i)
				if k == len(idx)-1 {
					c.safe(env.st, "nil", not(eq(cur.T, "0")), n)
					return Val{T: c.interiorAddr(cur.T, pt.Elem(), f), Typ: types.NewPointer(f.Type())}
				}
				cur = c.readField(env.st, cur.T, pt.Elem(), f)
			}
		}
	}
	c.unsup(n, "address-of %T", x)
	return Val{}
}

// interiorAddr encodes &p.f as a negative address so that it can never alias
// a slice element; see DESIGN (interior pointers).
func (c *FnCtx) interiorAddr(p string, structT types.Type, f *types.Var) string {
	id := c.interiorID(structT, f)
	return app("-", app("+", app("*", p, "64"), fmt.Sprint(id)))
}

func (c *FnCtx) interiorID(structT types.Type, f *types.Var) int {
	k := "interior:" + c.fieldKey(structT, f.Name())
	if id, ok := c.typeTags[k]; ok {
		return id
	}
	id := 1
	for kk := range c.typeTags {
		if strings.HasPrefix(kk, "interior:") {
			id++
		}
	}
	c.typeTags[k] = id
	return id
}

func (c *FnCtx) evalCompositeLit(env *Env, x *ast.CompositeLit, addr bool) Val {
	var t types.Type
	if env.spec {
		t = c.specType(env, x.Type)
	} else {
		t = c.typeOf(x)
	}
	t = c.subst(t)
	switch u := t.Underlying().(type) {
	case *types.Struct:
		if isOpaqueStruct(t) {
			if len(x.Elts) != 0 {
				c.unsup(x, "literal of external struct with fields")
			}
			z := c.zero(t)
			if addr {
				a := c.allocateObj(env.st, t)
				c.initOpaque(env, a, t)
				return Val{T: a, Typ: types.NewPointer(t)}
			}
			return z
		}
		vals := make([]string, u.NumFields())
		for i := 0; i < u.NumFields(); i++ {
			vals[i] = c.zero(u.Field(i).Type()).T
		}
		for i, el := range x.Elts {
			if kv, ok := el.(*ast.KeyValueExpr); ok {
				name := kv.Key.(*ast.Ident).Name
				found := false
				for j := 0; j < u.NumFields(); j++ {
					if u.Field(j).Name() == name {
						v := c.eval(env, kv.Value)
						v = c.assignConv(env, v, u.Field(j).Type())
						vals[j] = v.T
						found = true
					}
				}
				if !found {
					c.unsup(x, "unknown field %s", name)
				}
			} else {
				v := c.eval(env, el)
				v = c.assignConv(env, v, u.Field(i).Type())
				vals[i] = v.T
			}
		}
		if len(vals) == 0 {
			vals = []string{"0"}
		}
		sv := Val{T: app("mk_"+c.sortOf(t), vals...), Typ: t}
		if addr {
			a := c.allocateObj(env.st, t)
			c.storeTo(env, a, t, sv.T)
			return Val{T: a, Typ: types.NewPointer(t)}
		}
		return sv
	case *types.Slice:
		if addr {
			c.unsup(x, "address of slice literal")
		}
		n := int64(len(x.Elts))
		a := c.allocate(env.st, fmt.Sprint(c.sizeof(u.Elem())*maxI64(n, 1)))
		for i, el := range x.Elts {
			if _, ok := el.(*ast.KeyValueExpr); ok {
				c.unsup(x, "keyed slice literal")
			}
			var v Val
			if cl, ok := el.(*ast.CompositeLit); ok && cl.Type == nil {
				c.unsup(x, "elided composite literal type")
			} else {
				v = c.eval(env, el)
			}
			v = c.assignConv(env, v, u.Elem())
			c.storeTo(env, c.elemAddr(a, fmt.Sprint(i), u.Elem()), u.Elem(), v.T)
		}
		return Val{T: app("mk_Slice", a, fmt.Sprint(n), fmt.Sprint(n)), Typ: t}
	case *types.Map:
		if len(x.Elts) != 0 {
			c.unsup(x, "non-empty map literal")
		}
		return c.makeMap(env, t, u)
	}
	c.unsup(x, "composite literal of %s", t)
	return Val{}
}

func maxI64(a, b int64) int64 {
	if a > b {
		return a
	}
	return b
}

func (c *FnCtx) makeMap(env *Env, t types.Type, u *types.Map) Val {
	a := c.allocate(env.st, "8")
	dk, ds, _, _ := c.mapKeys(u)
	domH := c.heapGet(env.st, dk, ds, nil)
	c.heapSet(env.st, dk, app("store", domH, a, fmt.Sprintf("((as const (Array %s Bool)) false)", c.mapKeySort(u.Key()))))
	return Val{T: a, Typ: t}
}

// initOpaque initialises ghost state of a freshly allocated external struct.
func (c *FnCtx) initOpaque(env *Env, addr string, t types.Type) {
	switch types.TypeString(t, nil) {
	case "math/big.Int":
		c.ghostSet(env.st, "bigval", addr, "0")
	case "sync.Mutex", "sync.RWMutex":
		c.ghostSet(env.st, "lockstate", addr, "0")
	case "strings.Builder":
		c.ghostSet(env.st, "sbrunes", addr, "0")
		c.ghostSet(env.st, "sbopen", addr, "0")
	}
}

// assignConv converts v for assignment to a location of type t (interface boxing, nil).
func (c *FnCtx) assignConv(env *Env, v Val, t types.Type) Val {
	t = c.subst(t)
	if _, isTP := t.(*types.TypeParam); isTP {
		// unresolved type parameter (contract of a generic callee): keep the argument's own type
		if isNilVal(v) {
			return Val{T: "0", Typ: v.Typ}
		}
		return v
	}
	if isNilVal(v) {
		return c.zero(t)
	}
	if _, ok := t.Underlying().(*types.Interface); ok {
		if _, isI := c.subst(v.Typ).Underlying().(*types.Interface); !isI {
			return c.toIface(env, v, t)
		}
		return Val{T: v.T, Typ: t}
	}
	if vt := c.subst(v.Typ); vt != nil {
		if b, ok := vt.(*types.Basic); ok && b.Info()&types.IsUntyped != 0 {
			if _, isF := isFloat(t); isF && b.Kind() != types.UntypedFloat {
				return c.convert(env, v, t, nil)
			}
			return Val{T: v.T, Typ: t}
		}
	}
	return Val{T: v.T, Typ: t}
}

// ghost maps: Array Int Int keyed by object address
func (c *FnCtx) ghostGet(st *State, name, addr string) string {
	arr := c.heapGet(st, "GH_"+name, "(Array Int Int)", types.Typ[types.UntypedInt])
	return app("select", arr, addr)
}

func (c *FnCtx) ghostSet(st *State, name, addr, v string) {
	arr := c.heapGet(st, "GH_"+name, "(Array Int Int)", types.Typ[types.UntypedInt])
	c.heapSet(st, "GH_"+name, app("store", arr, addr, v))
}
