package vc

// RunBounded runs the bounded tier of a property (none yet).
func (e *Engine) RunBounded(prop, tier string, seed int, res *CheckResult) *BoundedResult {
	return nil
}
