package vc

import (
	"fmt"
	"go/ast"
	"go/token"
	"go/types"
)

// Channels, select, panics and recover (sequential model).
//
// A channel is an integer identity with ghost state
//   GH_chclosed[c]  0 / 1
//   GH_chhead[c], GH_chtail[c]   absolute positions: the queue holds positions head .. tail-1
//   CQ_<elem>[c*2^40 + k]        the value at absolute position k
// The queue is the sequence of values sent and not yet received; capacity only decides whether
// an operation blocks, and a blocked operation that never completes is a path that never
// returns (partial correctness).  What one operation does:
//   send     nil channel: blocks for ever; closed: panics; otherwise appends at tail
//   receive  non-empty: removes the head, ok; empty and closed: zero value, !ok;
//            empty and open: completes only through another goroutine, which either sends a
//            value (arbitrary value, ok, queue still empty) or closes the channel
//   close    nil or closed: panics; otherwise closed
// Apart from that last case other goroutines are not modelled.
//
// A panic raised by these operations (and by the builtin panic) is an abrupt exit of the
// function under verification: if a deferred closure registered so far calls recover(), the
// exit runs the deferred calls with recover() returning non-nil and the function then returns
// its named results; otherwise "no panic" is an obligation, as for every other Go panic.

const chanStride = "1099511627776" // 2^40

func (c *FnCtx) chanQueue(st *State, elem types.Type) (key, arr string) {
	key = "CQ_" + c.typeKey(elem)
	srt := "(Array Int " + c.sortOf(elem) + ")"
	return key, c.heapGet(st, key, srt, elem)
}

func (c *FnCtx) chanPos(ch, k string) string {
	return app("+", app("*", ch, chanStride), k)
}

func (c *FnCtx) chanElemType(ch Val, n ast.Node) types.Type {
	u, ok := c.subst(ch.Typ).Underlying().(*types.Chan)
	if !ok {
		c.unsup(n, "channel operation on %s", ch.Typ)
	}
	return u.Elem()
}

func (c *FnCtx) chanFacts(st *State, chv Val) {
	ch := chv.T
	// channels of different element types are different channels
	if u, ok := c.subst(chv.Typ).Underlying().(*types.Chan); ok {
		if !c.declSet["chty"] {
			c.declSet["chty"] = true
			c.decls = append(c.decls, "(declare-fun chty (Int) Int)")
		}
		c.facts = append(c.facts, implies(not(eq(ch, "0")), eq(app("chty", ch), c.typeTag(u.Elem()))))
	}
	h, t := c.ghostGet(st, "chhead", ch), c.ghostGet(st, "chtail", ch)
	cl := c.ghostGet(st, "chclosed", ch)
	c.facts = append(c.facts, implies(st.pc, and(app("<=", "0", h), app("<=", h, t), app("<", t, chanStride), or(eq(cl, "0"), eq(cl, "1")))))
}

// hasRecover: a deferred closure registered so far in the function under verification calls recover().
func (c *FnCtx) hasRecover() bool {
	for _, d := range c.frames[0].defers {
		if d.lit == nil {
			continue
		}
		found := false
		ast.Inspect(d.lit.Body, func(n ast.Node) bool {
			if ce, ok := n.(*ast.CallExpr); ok {
				if id, ok := unparen(ce.Fun).(*ast.Ident); ok && id.Name == "recover" {
					if _, isB := d.pkg.TypesInfo.ObjectOf(id).(*types.Builtin); isB {
						found = true
					}
				}
			}
			return !found
		})
		if found {
			return true
		}
	}
	return false
}

// panicIf: the operation at n panics when cond holds.
func (c *FnCtx) panicIf(st *State, cond, what string, n ast.Node) {
	if st.dead() {
		return
	}
	if c.inSpec > 0 {
		c.assume(st, not(cond))
		return
	}
	if !c.hasRecover() {
		c.safe(st, "panic", not(cond), n)
		c.assume(st, not(cond))
		return
	}
	top := c.frames[0]
	pst, ok := c.split(st, cond)
	var vals []Val
	for _, r := range top.results {
		if v, have := pst.vars[r]; have {
			vals = append(vals, v)
		} else {
			vals = append(vals, c.zero(r.Type()))
		}
	}
	top.returns = append(top.returns, &retRec{st: pst, vals: vals, panicking: true, what: what, node: n, afterCut: c.cutDone})
	st.become(ok)
}

func (c *FnCtx) chanSend(st *State, ch, v Val, n ast.Node) {
	elem := c.chanElemType(ch, n)
	c.chanFacts(st, ch)
	// nil channel: blocks for ever
	c.assume(st, not(eq(ch.T, "0")))
	c.panicIf(st, eq(c.ghostGet(st, "chclosed", ch.T), "1"), "send on closed channel", n)
	if st.dead() {
		return
	}
	key, arr := c.chanQueue(st, elem)
	t := c.ghostGet(st, "chtail", ch.T)
	c.heapSet(st, key, c.nameTerm("cq", app("store", arr, c.chanPos(ch.T, t), v.T), "(Array Int "+c.sortOf(elem)+")"))
	c.ghostSet(st, "chtail", ch.T, app("+", t, "1"))
	c.assume(st, app("<", app("+", t, "1"), chanStride))
}

// chanRecv returns the received value and the ok flag.
func (c *FnCtx) chanRecv(st *State, ch Val, n ast.Node) (Val, string) {
	elem := c.chanElemType(ch, n)
	c.chanFacts(st, ch)
	c.assume(st, not(eq(ch.T, "0")))
	h, t := c.ghostGet(st, "chhead", ch.T), c.ghostGet(st, "chtail", ch.T)
	cl := c.ghostGet(st, "chclosed", ch.T)
	_, arr := c.chanQueue(st, elem)
	nonEmpty := app("<", h, t)
	// empty and open: another goroutine decides
	env := c.freshVal("chenv", elem, st)
	envCloses := c.fresh("chcloses")
	c.declConst(envCloses, "Bool")
	head := app("select", arr, c.chanPos(ch.T, h))
	zero := c.zero(elem).T
	val := ite(nonEmpty, head, ite(or(eq(cl, "1"), envCloses), zero, env.T))
	okT := or(nonEmpty, and(eq(cl, "0"), not(envCloses)))
	c.ghostSet(st, "chhead", ch.T, ite(nonEmpty, app("+", h, "1"), h))
	c.ghostSet(st, "chclosed", ch.T, ite(and(not(nonEmpty), eq(cl, "0"), envCloses), "1", cl))
	rv := Val{T: c.nameTerm("recv", val, c.sortOf(elem)), Typ: elem}
	c.assumeInv(st, rv.T, elem)
	return rv, c.nameBool("recvok", okT)
}

func (c *FnCtx) chanClose(st *State, ch Val, n ast.Node) {
	c.chanElemType(ch, n)
	c.chanFacts(st, ch)
	c.panicIf(st, or(eq(ch.T, "0"), eq(c.ghostGet(st, "chclosed", ch.T), "1")), "close of nil or closed channel", n)
	if st.dead() {
		return
	}
	c.ghostSet(st, "chclosed", ch.T, "1")
}

// execSend: ch <- v
func (c *FnCtx) execSend(st *State, x *ast.SendStmt) {
	env := &Env{st: st}
	ch := c.eval(env, x.Chan)
	v := c.eval(env, x.Value)
	elem := c.chanElemType(ch, x)
	v = c.assignConv(env, v, elem)
	c.chanSend(st, ch, v, x)
}

// execSelect: any communication clause may be the one that proceeds (which ones are ready
// depends on other goroutines); default likewise.
func (c *FnCtx) execSelect(st *State, x *ast.SelectStmt) {
	n := len(x.Body.List)
	if n == 0 {
		st.pc = "false" // select {} blocks for ever
		return
	}
	choice := c.fresh("select")
	c.declConst(choice, "Int")
	lf := &loopFrame{label: "select"}
	c.loops = append(c.loops, lf)
	var outs []*State
	for i, cs := range x.Body.List {
		cl := cs.(*ast.CommClause)
		s, _ := c.split(st, eq(choice, fmt.Sprint(i)))
		switch cm := cl.Comm.(type) {
		case nil:
		case *ast.SendStmt:
			c.execSend(s, cm)
		case *ast.ExprStmt:
			if u, ok := unparen(cm.X).(*ast.UnaryExpr); ok && u.Op == token.ARROW {
				c.chanRecv(s, c.eval(&Env{st: s}, u.X), cm)
			} else {
				c.unsup(cm, "select communication")
			}
		case *ast.AssignStmt:
			c.exec(s, cm)
		default:
			c.unsup(cl, "select communication")
		}
		if !s.dead() {
			c.execBlock(s, cl.Body)
		}
		outs = append(outs, s)
	}
	c.loops = c.loops[:len(c.loops)-1]
	outs = append(outs, lf.breaks...)
	if len(lf.continues) > 0 {
		if len(c.loops) == 0 {
			c.unsup(x, "continue outside loop")
		}
		c.loops[len(c.loops)-1].continues = append(c.loops[len(c.loops)-1].continues, lf.continues...)
	}
	st.become(c.join(outs...))
}

// runDeferredClosure executes the body of a deferred closure on the exit state r.st.
func (c *FnCtx) runDeferredClosure(r *retRec, fr *inlineFrame, d deferRec) {
	if len(d.lit.Type.Params.List) > 0 || len(d.call.Args) > 0 {
		c.unsup(d.call, "deferred closure with parameters")
	}
	sub := &inlineFrame{fn: fr.fn, pkg: fr.pkg, tsubst: fr.tsubst}
	c.frames = append(c.frames, sub)
	saveLoops := c.loops
	c.loops = nil
	savePan, saveRec := c.deferPanicking, c.deferRecovered
	c.deferPanicking = r.panicking && !r.recovered
	c.deferRecovered = false
	st := r.st
	c.execBlock(st, d.lit.Body.List)
	var states []*State
	if !st.dead() {
		states = append(states, st.clone())
	}
	for _, rr := range sub.returns {
		states = append(states, rr.st)
	}
	if c.deferRecovered {
		r.recovered = true
	}
	c.deferPanicking, c.deferRecovered = savePan, saveRec
	c.loops = saveLoops
	c.frames = c.frames[:len(c.frames)-1]
	if len(states) == 0 {
		st.pc = "false"
		return
	}
	st.become(c.join(states...))
}

// evalRecover: the builtin recover() — non-nil exactly when called by a deferred function while
// the function is panicking (and it stops the panic).
func (c *FnCtx) evalRecover(env *Env) Val {
	it := types.NewInterfaceType(nil, nil)
	if c.deferPanicking {
		c.deferPanicking = false
		c.deferRecovered = true
		v := c.freshVal("recovered", it, env.st)
		c.assume(env.st, app(">", app("if_tab", v.T), "0"))
		return v
	}
	return c.zero(it)
}
