package vc

import (
	"fmt"
	"go/ast"
	"go/types"
)

// Monitors: rely/guarantee reasoning for fields protected by a mutex.
//
// `monitor T.m(self)` declares the mutex field m of struct T a monitor for every field declared
// `guarded T.f by m`.  The sequential verification of a function cannot see what other threads
// do between two critical sections, so it is made to assume the worst that the monitor allows:
//
//   acquire (Lock, RLock):  the guarded fields (and the contents of guarded maps and slices)
//       are havocked; the monitor invariant holds of the new state, and the new state is
//       related to the state before the acquisition by the rely relation (what other threads
//       may have done meanwhile).
//   release of the write lock (Unlock):  the monitor invariant must hold again, and the state
//       must be related to the state at acquisition by the same relation (what this thread did
//       is something the others are prepared for).
//
// A check-then-act sequence spread over two critical sections therefore acts on a state in
// which the check may no longer hold, exactly as under a real interleaving.  Soundness of the
// rule is the usual one for monitors with a reflexive, transitive rely relation; that relation
// being transitive is not checked.

type monAcq struct {
	st *State // state right after the acquisition (post-havoc)
}

func (c *FnCtx) monitorHook(env *Env, fn *types.Func, recv *Val, x *ast.CallExpr) {
	if len(c.E.Monitors) == 0 || recv == nil || c.inSpec > 0 || x == nil {
		return
	}
	if c.C != nil && c.C.Unshared {
		return
	}
	key := FuncKey(fn)
	acquire, release := false, false
	switch key {
	case "sync.(*RWMutex).Lock", "sync.(*RWMutex).RLock", "sync.(*Mutex).Lock":
		acquire = true
	case "sync.(*RWMutex).Unlock", "sync.(*Mutex).Unlock":
		release = true
	default:
		return
	}
	sel, ok := unparen(x.Fun).(*ast.SelectorExpr)
	if !ok {
		return
	}
	fsel, ok := unparen(sel.X).(*ast.SelectorExpr)
	if !ok {
		return
	}
	info := c.info()
	fs, ok := info.Selections[fsel]
	if !ok || fs.Kind() != types.FieldVal {
		return
	}
	fv, ok := fs.Obj().(*types.Var)
	if !ok {
		return
	}
	// the struct owning the mutex field
	ownerT := c.subst(info.TypeOf(fsel.X))
	if p, isP := ownerT.Underlying().(*types.Pointer); isP {
		ownerT = c.subst(p.Elem())
	}
	named, ok := ownerT.(*types.Named)
	if !ok || named.Obj().Pkg() == nil {
		return
	}
	stT, ok := named.Underlying().(*types.Struct)
	if !ok {
		return
	}
	mkey := named.Obj().Pkg().Path() + "." + named.Obj().Name() + "." + fv.Name()
	mon := c.E.Monitors[mkey]
	if mon == nil {
		return
	}
	st := env.st
	if st.dead() {
		return
	}
	// the object: the receiver is the interior address -(64*obj + id)
	id := c.interiorID(ownerT, fv)
	obj := app("div", app("-", app("-", recv.T), fmt.Sprint(id)), "64")
	objName := c.nameTerm("monobj", obj, "Int")
	self := Val{T: objName, Typ: types.NewPointer(named)}
	selfName := "self"
	if len(mon.ParamNames) > 0 && mon.ParamNames[0] != "" {
		selfName = mon.ParamNames[0]
	}
	pkg := c.E.All[mon.PkgPath]
	mkEnv := func(cur, old *State) *Env {
		e := &Env{st: cur, spec: true, old: old, lookup: func(n string) (Val, bool) {
			if n == selfName {
				return self, true
			}
			return Val{}, false
		}}
		if pkg != nil {
			e.spkg = pkg.Types
		}
		return e
	}
	akey := mkey + "@" + recv.T
	if c.monAcqs == nil {
		c.monAcqs = map[string]*monAcq{}
	}
	if acquire {
		pre := st.clone()
		for i := 0; i < stT.NumFields(); i++ {
			g := stT.Field(i)
			if c.E.Guarded[named.Obj().Pkg().Path()+"."+named.Obj().Name()+"."+g.Name()] != fv.Name() {
				continue
			}
			nv := c.freshVal("mon_"+g.Name(), g.Type(), st)
			c.writeField(st, objName, ownerT, g, nv.T)
			switch u := c.subst(g.Type()).Underlying().(type) {
			case *types.Map:
				dk, ds, vk, vs := c.mapKeys(u)
				c.heapSort[dk], c.heapSort[vk] = ds, vs
				c.havocKey(st, dk, nil)
				c.havocKey(st, vk, nil)
			case *types.Slice:
				c.havocKey(st, c.memKey(u.Elem()), u.Elem())
			case *types.Pointer:
				// contents of the pointee are not covered by `guarded`
			}
		}
		c.Monitored[mkey] = true
		for _, cl := range mon.Requires {
			c.assume(st, c.eval(mkEnv(st, pre), cl.Expr).T)
		}
		for _, cl := range mon.Ensures {
			c.assume(st, c.eval(mkEnv(st, pre), cl.Expr).T)
		}
		acq := &monAcq{st: st.clone()}
		c.monAcqs[akey] = acq
		c.lastAcq = acq
		return
	}
	if release {
		for _, cl := range mon.Requires {
			g := c.eval(mkEnv(st, st), cl.Expr)
			c.oblige(st, "monitor", "inv:"+shortKey(mkey)+":"+cl.Label, g.T, cl.Src, cl.Try, x)
		}
		if acq := c.monAcqs[akey]; acq != nil {
			for _, cl := range mon.Ensures {
				g := c.eval(mkEnv(st, acq.st), cl.Expr)
				c.oblige(st, "monitor", "guar:"+shortKey(mkey)+":"+cl.Label, g.T, cl.Src, cl.Try, x)
			}
		}
	}
}
