package main

import (
	"flag"
	"fmt"
	"os"
	"path/filepath"
	"strconv"
	"strings"

	"elkvc/vc"
)

var allPkgs = []string{"./value", "./vm", "./bytecode", "./lexer", "./parser", "./compiler", "./types/checker",
	"./concurrent", "./position/diagnostic", "./ext/std/test", "./regex/lexer", "./regex/parser", "./cmd/elk"}

func main() {
	if len(os.Args) < 2 {
		fmt.Fprintln(os.Stderr, "usage: elkvc check <PROP> [--tier quick|thorough] | func <key> | list")
		os.Exit(2)
	}
	cmd := os.Args[1]
	fs := flag.NewFlagSet(cmd, flag.ExitOnError)
	repo := fs.String("repo", "/repo", "repository under verification")
	verif := fs.String("verif", "/verif", "verification directory")
	tier := fs.String("tier", "quick", "quick|thorough")
	dump := fs.String("dump", "", "directory to dump SMT queries into")
	timeout := fs.Int("timeout", 10, "per-obligation solver timeout (s)")
	pkgs := fs.String("pkgs", "", "comma separated package patterns (default: all packages under contract)")
	verbose := fs.Bool("v", false, "verbose")
	var pos []string
	args := os.Args[2:]
	for len(args) > 0 && !strings.HasPrefix(args[0], "-") {
		pos = append(pos, args[0])
		args = args[1:]
	}
	fs.Parse(args)
	pos = append(pos, fs.Args()...)
	seed := 0
	if s := os.Getenv("VERIF_SEED"); s != "" {
		if n, err := strconv.Atoi(s); err == nil {
			seed = n
		}
	}
	if t := os.Getenv("VERIF_TIER"); t != "" && !flagSet(fs, "tier") {
		*tier = t
	}
	defer vc.CleanupScratch()
	patterns := allPkgs
	if *pkgs != "" {
		patterns = strings.Split(*pkgs, ",")
	}
	e, err := vc.Load(*repo, *verif, patterns)
	if err != nil {
		fmt.Fprintln(os.Stderr, "UNDECIDED load error:", err)
		vc.CleanupScratch()
		os.Exit(2)
	}
	switch cmd {
	case "list":
		for k, c := range e.Contracts {
			fmt.Println(k, c.Props)
		}
	case "func":
		code := 0
		for _, key := range pos {
			if !strings.Contains(key, "/") && !strings.HasPrefix(key, "lemma:") {
				// allow short keys: value.(SmallInt).AddOverflow
				key = vc.RepoModule + "/" + key
			}
			ct := e.Contracts[key]
			var reps []*vc.FuncReport
			if ct != nil && len(ct.Instantiate) > 0 {
				for _, ta := range ct.Instantiate {
					reps = append(reps, e.VerifyFunc(key, ta))
				}
			} else {
				reps = append(reps, e.VerifyFunc(key, nil))
			}
			e.Discharge(reps, vc.RunOpts{TimeoutS: *timeout, Seed: seed, Thorough: true})
			for _, rep := range reps {
				if rep.OutOfSubset != "" {
					fmt.Printf("OUT-OF-SUBSET %s: %s\n", key, rep.OutOfSubset)
					code = 2
					continue
				}
				for i, o := range rep.Obls {
					fmt.Printf("%-12s %-8s %5dms %s   [%s] %s\n", o.Status, o.Result.Solver, o.Result.Ms, o.Name, o.Pos, o.Src)
					if o.Status == "failed" || o.Status == "undecided" {
						if o.Status == "failed" {
							code = 1
						}
						if *verbose {
							fmt.Println("   solver:", o.Result.Status, o.Result.Model)
						}
					}
					if *dump != "" {
						os.MkdirAll(*dump, 0o755)
						os.WriteFile(filepath.Join(*dump, fmt.Sprintf("%03d.smt2", i)), []byte("; "+o.Name+"\n"+o.BuildQuery("", !o.MustFail)), 0o644)
					}
				}
				if rep.Ctx != nil && *verbose {
					fmt.Println("  inlined:", keys(rep.Ctx.Inlined))
					fmt.Println("  opaque:", keys(rep.Ctx.Opaque))
					fmt.Println("  contracts used:", keys(rep.Ctx.UsedContracts))
					for _, p := range rep.Ctx.Pruned {
						fmt.Println("  path not verified beyond:", p)
					}
				}
			}
		}
		vc.CleanupScratch()
		os.Exit(code)
	case "check":
		if len(pos) != 1 {
			fmt.Fprintln(os.Stderr, "usage: elkvc check <PROP>")
			os.Exit(2)
		}
		code := vc.CheckMain(e, pos[0], *tier, seed, *verbose)
		vc.CleanupScratch()
		os.Exit(code)
	default:
		fmt.Fprintln(os.Stderr, "unknown command", cmd)
		os.Exit(2)
	}
}

func keys(m map[string]bool) []string {
	var out []string
	for k := range m {
		out = append(out, k)
	}
	return out
}

func flagSet(fs *flag.FlagSet, name string) bool {
	set := false
	fs.Visit(func(f *flag.Flag) {
		if f.Name == name {
			set = true
		}
	})
	return set
}
